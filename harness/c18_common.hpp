// c18_common.hpp — shared part of the C18 harness (populated target == fresh target).
//
// Everything here is generic over the archive type so that each archive gets its own translation
// unit (c18_pt_msgpack.cpp / c18_pt_json.cpp / c18_pt_xml.cpp, CSV lives in the main TU).
//
//   * value operations written without the library: show / eq / clone / size / weight / nested-empty flags;
//   * domains: for a type T, all<T>(role, n) is the complete list of values with top-level size 0..n,
//     built from positional element alternatives few<E>(role, pos) (canaries 91,92.. / "P0".. for the
//     prior role, 1,2.. / "d0".. for the data role; "" / null / empty inner containers are alternatives);
//   * run<A, T>: one case = (placement, policy, prior, data[, stream]) executed on the real loader;
//   * runMapMode<A, M>: the MapLoadMode scenario with its documented-behaviour oracle.
#pragma once
#include "models/lib.hpp"
#include "bitserializer/types/std/array.h"
#include "bitserializer/types/std/bitset.h"
#include "bitserializer/types/std/deque.h"
#include "bitserializer/types/std/forward_list.h"
#include "bitserializer/types/std/list.h"
#include "bitserializer/types/std/map.h"
#include "bitserializer/types/std/memory.h"
#include "bitserializer/types/std/optional.h"
#include "bitserializer/types/std/pair.h"
#include "bitserializer/types/std/queue.h"
#include "bitserializer/types/std/set.h"
#include "bitserializer/types/std/stack.h"
#include "bitserializer/types/std/tuple.h"
#include "bitserializer/types/std/unordered_map.h"
#include "bitserializer/types/std/unordered_set.h"
#include "bitserializer/types/std/valarray.h"
#include "bitserializer/types/std/vector.h"
#include <array>
#include <bitset>
#include <deque>
#include <forward_list>
#include <list>
#include <map>
#include <memory>
#include <optional>
#include <queue>
#include <set>
#include <stack>
#include <tuple>
#include <unordered_map>
#include <unordered_set>
#include <valarray>
#include <vector>

namespace c18 {

namespace BS = BitSerializer;
enum Role { Prior = 0, Data = 1 };
enum Place { Root = 0, Member = 1 };

// ---------------------------------------------------------------------------------------------
// traits
// ---------------------------------------------------------------------------------------------
template <class T, template <class...> class Tpl> struct is_spec : std::false_type {};
template <template <class...> class Tpl, class... A> struct is_spec<Tpl<A...>, Tpl> : std::true_type {};
template <class T, template <class...> class Tpl> constexpr bool is_spec_v = is_spec<T, Tpl>::value;

template <class T> constexpr bool is_string_v = is_spec_v<T, std::basic_string>;
template <class T> constexpr bool is_unique_v = is_spec_v<T, std::unique_ptr>;
template <class T> constexpr bool is_shared_v = is_spec_v<T, std::shared_ptr>;
template <class T> constexpr bool is_smart_v = is_unique_v<T> || is_shared_v<T>;
template <class T> constexpr bool is_optional_v = is_spec_v<T, std::optional>;
template <class T> constexpr bool is_pair_v = is_spec_v<T, std::pair>;
template <class T> constexpr bool is_tuple_v = is_spec_v<T, std::tuple>;
template <class T> constexpr bool is_valarray_v = is_spec_v<T, std::valarray>;
template <class T> constexpr bool is_queue_v = is_spec_v<T, std::queue>;
template <class T> constexpr bool is_stack_v = is_spec_v<T, std::stack>;
template <class T> constexpr bool is_pqueue_v = is_spec_v<T, std::priority_queue>;
template <class T> constexpr bool is_adapter_v = is_queue_v<T> || is_stack_v<T> || is_pqueue_v<T>;
template <class T> constexpr bool is_fwdlist_v = is_spec_v<T, std::forward_list>;
template <class T> struct is_stdarray : std::false_type {};
template <class E, size_t N> struct is_stdarray<std::array<E, N>> : std::true_type {};
template <class T> constexpr bool is_stdarray_v = is_stdarray<T>::value;
template <class T> struct is_bitset : std::false_type {};
template <size_t N> struct is_bitset<std::bitset<N>> : std::true_type {};
template <class T> constexpr bool is_bitset_v = is_bitset<T>::value;
template <class T, class = void> struct has_member_begin : std::false_type {};
template <class T> struct has_member_begin<T, std::void_t<decltype(std::declval<const T&>().begin())>> : std::true_type {};
template <class T> constexpr bool is_iterable_v = has_member_begin<T>::value && !is_string_v<T> && !is_stdarray_v<T>;
template <class T, class = void> struct has_mapped : std::false_type {};
template <class T> struct has_mapped<T, std::void_t<typename T::mapped_type>> : std::true_type {};
template <class T> constexpr bool is_maplike_v = has_mapped<T>::value;
template <class T, class = void> struct has_key : std::false_type {};
template <class T> struct has_key<T, std::void_t<typename T::key_type>> : std::true_type {};
template <class T> constexpr bool is_keyed_v = has_key<T>::value;       // sets and maps
template <class T, class = void> struct has_hasher : std::false_type {};
template <class T> struct has_hasher<T, std::void_t<typename T::hasher>> : std::true_type {};
template <class T> constexpr bool is_unordered_v = has_hasher<T>::value;
template <class T> constexpr bool is_multi_v = is_spec_v<T, std::multiset> || is_spec_v<T, std::unordered_multiset> || is_spec_v<T, std::multimap> || is_spec_v<T, std::unordered_multimap>;
template <class T, class = void> struct has_tie : std::false_type {};
template <class T> struct has_tie<T, std::void_t<decltype(T::tie(std::declval<T&>()))>> : std::true_type {};
template <class T> constexpr bool has_tie_v = has_tie<T>::value;
template <class T> constexpr bool is_seqlike_v = is_iterable_v<T> || is_valarray_v<T> || is_adapter_v<T>;   // run-time sized

// element type used by the domain builder (maps: pair<key, mapped> without the const)
template <class T, class = void> struct elem { using type = typename T::value_type; };
template <class T> struct elem<T, std::enable_if_t<is_maplike_v<T>>> { using type = std::pair<typename T::key_type, typename T::mapped_type>; };
template <class T> using elem_t = typename elem<T>::type;

// "a scalar at the root": formats whose root must be an array or an object cannot carry these
template <class T> constexpr bool isCompound() {
	if constexpr (is_optional_v<T> || is_smart_v<T>) return false;   // "null" needs a value position
	else return is_seqlike_v<T> || is_stdarray_v<T> || is_bitset_v<T> || is_pair_v<T> || is_tuple_v<T> || has_tie_v<T>;
}

// access to the container under an adapter (own accessor, the library has its own)
template <class Ad> const typename Ad::container_type& baseOf(const Ad& a) {
	struct Acc : Ad { static const typename Ad::container_type& get(const Ad& x) { return x.*(&Acc::c); } };
	return Acc::get(a);
}

// ---------------------------------------------------------------------------------------------
// type names (signature symbols)
// ---------------------------------------------------------------------------------------------
template <class T> std::string tname();
template <class... A> std::string tnames() { std::string r; ((r += (r.empty() ? "" : ",") + tname<A>()), ...); return r; }
template <class T> std::string tname() {
	if constexpr (std::is_same_v<T, bool>) return "bool";
	else if constexpr (std::is_same_v<T, int>) return "int";
	else if constexpr (std::is_same_v<T, std::string>) return "string";
	else if constexpr (std::is_same_v<T, std::u16string>) return "u16string";
	else if constexpr (std::is_same_v<T, std::u32string>) return "u32string";
	else if constexpr (std::is_same_v<T, std::wstring>) return "wstring";
	else if constexpr (is_unique_v<T>) return "unique_ptr<" + tname<typename T::element_type>() + ">";
	else if constexpr (is_shared_v<T>) return "shared_ptr<" + tname<typename T::element_type>() + ">";
	else if constexpr (is_optional_v<T>) return "optional<" + tname<typename T::value_type>() + ">";
	else if constexpr (is_pair_v<T>) return "pair<" + tname<typename T::first_type>() + "," + tname<typename T::second_type>() + ">";
	else if constexpr (is_tuple_v<T>) return std::apply([](auto&&... e) { return "tuple<" + tnames<std::decay_t<decltype(e)>...>() + ">"; }, T{});
	else if constexpr (is_stdarray_v<T>) return "array<" + tname<typename T::value_type>() + "," + std::to_string(std::tuple_size_v<T>) + ">";
	else if constexpr (is_bitset_v<T>) return "bitset<" + std::to_string(T{}.size()) + ">";
	else if constexpr (is_valarray_v<T>) return "valarray<" + tname<typename T::value_type>() + ">";
	else if constexpr (is_queue_v<T>) return "queue<" + tname<typename T::value_type>() + ">";
	else if constexpr (is_stack_v<T>) return "stack<" + tname<typename T::value_type>() + ">";
	else if constexpr (is_pqueue_v<T>) return "priority_queue<" + tname<typename T::value_type>() + ">";
	else if constexpr (is_spec_v<T, std::vector>) return "vector<" + tname<typename T::value_type>() + ">";
	else if constexpr (is_spec_v<T, std::deque>) return "deque<" + tname<typename T::value_type>() + ">";
	else if constexpr (is_spec_v<T, std::list>) return "list<" + tname<typename T::value_type>() + ">";
	else if constexpr (is_fwdlist_v<T>) return "forward_list<" + tname<typename T::value_type>() + ">";
	else if constexpr (is_spec_v<T, std::set>) return "set<" + tname<typename T::value_type>() + ">";
	else if constexpr (is_spec_v<T, std::multiset>) return "multiset<" + tname<typename T::value_type>() + ">";
	else if constexpr (is_spec_v<T, std::unordered_set>) return "unordered_set<" + tname<typename T::value_type>() + ">";
	else if constexpr (is_spec_v<T, std::unordered_multiset>) return "unordered_multiset<" + tname<typename T::value_type>() + ">";
	else if constexpr (is_spec_v<T, std::map>) return "map<" + tname<typename T::key_type>() + "," + tname<typename T::mapped_type>() + ">";
	else if constexpr (is_spec_v<T, std::multimap>) return "multimap<" + tname<typename T::key_type>() + "," + tname<typename T::mapped_type>() + ">";
	else if constexpr (is_spec_v<T, std::unordered_map>) return "unordered_map<" + tname<typename T::key_type>() + "," + tname<typename T::mapped_type>() + ">";
	else if constexpr (is_spec_v<T, std::unordered_multimap>) return "unordered_multimap<" + tname<typename T::key_type>() + "," + tname<typename T::mapped_type>() + ">";
	else return T::name();
}

// ---------------------------------------------------------------------------------------------
// show / eq / clone / size / weight / nested-empty flags  (no library code)
// ---------------------------------------------------------------------------------------------
template <class T> std::string show(const T& v);
template <class Tup, size_t... I> std::string showTup(const Tup& t, std::index_sequence<I...>) { std::string r; ((r += (I ? "," : "") + show(std::get<I>(t))), ...); return r; }
template <class T> std::string show(const T& v) {
	if constexpr (std::is_same_v<T, bool>) return v ? "T" : "F";
	else if constexpr (std::is_arithmetic_v<T>) return std::to_string(v);
	else if constexpr (is_string_v<T>) {
		std::string r = "\"";
		for (auto ch : v) { auto u = static_cast<uint32_t>(ch); if (u >= 0x20 && u < 0x7f) r.push_back(static_cast<char>(u)); else r += bsx::fmt("\\u%04x", u); }
		return r + "\"";
	}
	else if constexpr (is_smart_v<T>) return v ? "&" + show(*v) : std::string("null");
	else if constexpr (is_optional_v<T>) return v ? "?" + show(*v) : std::string("nullopt");
	else if constexpr (is_pair_v<T>) return "(" + show(v.first) + ":" + show(v.second) + ")";
	else if constexpr (is_tuple_v<T>) return "(" + showTup(v, std::make_index_sequence<std::tuple_size_v<T>>{}) + ")";
	else if constexpr (is_bitset_v<T>) return "b" + v.to_string();
	else if constexpr (is_valarray_v<T>) { std::string r = "["; for (size_t i = 0; i < v.size(); ++i) r += (i ? "," : "") + show(v[i]); return r + "]"; }
	else if constexpr (is_adapter_v<T>) return show(baseOf(v));
	else if constexpr (has_tie_v<T>) { auto t = T::tie(v); return "{" + showTup(t, std::make_index_sequence<std::tuple_size_v<decltype(t)>>{}) + "}"; }
	else {
		std::vector<std::string> parts;
		for (auto it = v.begin(); it != v.end(); ++it) {
			if constexpr (is_maplike_v<T>) parts.push_back(show(it->first) + ":" + show(it->second));
			else { const typename T::value_type& e = *it; parts.push_back(show(e)); }
		}
		if constexpr (is_unordered_v<T>) std::sort(parts.begin(), parts.end());
		std::string r = is_keyed_v<T> ? "{" : "[";
		for (size_t i = 0; i < parts.size(); ++i) r += (i ? "," : "") + parts[i];
		return r + (is_keyed_v<T> ? "}" : "]");
	}
}
// vector<bool>: *it is a proxy; the const-ref binding above materialises a bool temporary

template <class T> bool eq(const T& a, const T& b);
template <class Tup, size_t... I> bool eqTup(const Tup& a, const Tup& b, std::index_sequence<I...>) { return (eq(std::get<I>(a), std::get<I>(b)) && ...); }
template <class Ad> std::vector<typename Ad::value_type> drain(Ad a) {   // by value: drains a copy through the public interface
	std::vector<typename Ad::value_type> r;
	while (!a.empty()) { if constexpr (is_queue_v<Ad>) r.push_back(a.front()); else r.push_back(a.top()); a.pop(); }
	return r;
}
template <class T> bool eq(const T& a, const T& b) {
	if constexpr (is_smart_v<T> || is_optional_v<T>) return static_cast<bool>(a) == static_cast<bool>(b) && (!a || eq(*a, *b));
	else if constexpr (is_pair_v<T>) return eq(a.first, b.first) && eq(a.second, b.second);
	else if constexpr (is_tuple_v<T>) return eqTup(a, b, std::make_index_sequence<std::tuple_size_v<T>>{});
	else if constexpr (has_tie_v<T>) { auto x = T::tie(a); auto y = T::tie(b); return eqTup(x, y, std::make_index_sequence<std::tuple_size_v<decltype(x)>>{}); }
	else if constexpr (is_valarray_v<T>) { if (a.size() != b.size()) return false; for (size_t i = 0; i < a.size(); ++i) if (!eq(a[i], b[i])) return false; return true; }
	else if constexpr (is_adapter_v<T>) return drain(a) == drain(b);
	else if constexpr (is_unordered_v<T>) return a == b;     // set / multiset semantics by definition of operator==
	else if constexpr (is_iterable_v<T> && !is_keyed_v<T>) {
		auto i = a.begin(); auto j = b.begin();
		for (; i != a.end() && j != b.end(); ++i, ++j) { const typename T::value_type& x = *i; const typename T::value_type& y = *j; if (!eq(x, y)) return false; }
		return i == a.end() && j == b.end();
	}
	else if constexpr (is_maplike_v<T>) {
		auto i = a.begin(); auto j = b.begin();
		for (; i != a.end() && j != b.end(); ++i, ++j) if (!(i->first == j->first) || !eq(i->second, j->second)) return false;
		return i == a.end() && j == b.end();
	}
	else return a == b;
}

template <class T> constexpr bool isDeep() {   // copying would share or is impossible
	if constexpr (is_smart_v<T>) return true;
	else if constexpr (is_optional_v<T>) return isDeep<typename T::value_type>();
	else if constexpr (has_tie_v<T>) return true;
	else if constexpr (is_maplike_v<T>) return isDeep<typename T::mapped_type>();
	else if constexpr (is_iterable_v<T>) return isDeep<typename T::value_type>();
	else return false;
}
template <class T> T clone(const T& v);
template <class T, class E> T buildSeq(std::vector<E>&& es) {
	T r;
	if constexpr (is_fwdlist_v<T>) { auto it = r.before_begin(); for (auto&& e : es) it = r.insert_after(it, std::move(e)); }
	else { for (auto&& e : es) r.push_back(std::move(e)); }
	return r;
}
template <class A, class B, size_t... I> void cloneTup(A& dst, const B& src, std::index_sequence<I...>) { ((std::get<I>(dst) = clone(std::get<I>(src))), ...); }
template <class T> T clone(const T& v) {
	if constexpr (!isDeep<T>()) return v;
	else if constexpr (is_unique_v<T>) return v ? std::make_unique<typename T::element_type>(clone(*v)) : nullptr;
	else if constexpr (is_shared_v<T>) return v ? std::make_shared<typename T::element_type>(clone(*v)) : nullptr;
	else if constexpr (is_optional_v<T>) return v ? T(clone(*v)) : T();
	else if constexpr (has_tie_v<T>) { T r; auto d = T::tie(r); auto s = T::tie(v); cloneTup(d, s, std::make_index_sequence<std::tuple_size_v<decltype(d)>>{}); return r; }
	else if constexpr (is_maplike_v<T>) { T r; for (auto&& kv : v) r.emplace(kv.first, clone(kv.second)); return r; }
	else { std::vector<typename T::value_type> es; for (auto&& e : v) es.push_back(clone(e)); return buildSeq<T>(std::move(es)); }
}

// number of top-level items (what "prior longer / shorter than the data" refers to)
template <class T> size_t topSize(const T& v) {
	if constexpr (is_smart_v<T> || is_optional_v<T>) return v ? 1 : 0;
	else if constexpr (is_string_v<T> || is_valarray_v<T> || is_adapter_v<T> || is_bitset_v<T> || is_stdarray_v<T>) return v.size();
	else if constexpr (is_pair_v<T>) return 2;
	else if constexpr (is_tuple_v<T>) return std::tuple_size_v<T>;
	else if constexpr (has_tie_v<T>) return std::tuple_size_v<decltype(T::tie(v))>;
	else if constexpr (is_iterable_v<T>) return static_cast<size_t>(std::distance(v.begin(), v.end()));
	else return 1;
}
// total amount of content (recursive): more than expected = something stale survived, less = something was lost
template <class T> size_t weight(const T& v);
template <class Tup, size_t... I> size_t weightTup(const Tup& t, std::index_sequence<I...>) { return (weight(std::get<I>(t)) + ... + 0); }
template <class T> size_t weight(const T& v) {
	if constexpr (is_smart_v<T> || is_optional_v<T>) return v ? 1 + weight(*v) : 0;
	else if constexpr (is_string_v<T>) return 1 + v.size();
	else if constexpr (is_pair_v<T>) return weight(v.first) + weight(v.second);
	else if constexpr (is_tuple_v<T>) return weightTup(v, std::make_index_sequence<std::tuple_size_v<T>>{});
	else if constexpr (has_tie_v<T>) { auto t = T::tie(v); return weightTup(t, std::make_index_sequence<std::tuple_size_v<decltype(t)>>{}); }
	else if constexpr (is_valarray_v<T>) return 1 + v.size();
	else if constexpr (is_adapter_v<T>) return weight(baseOf(v));
	else if constexpr (is_bitset_v<T>) return 1;
	else if constexpr (is_stdarray_v<T>) { size_t n = 1; for (auto&& e : v) n += weight(e); return n; }
	else if constexpr (is_maplike_v<T>) { size_t n = 1; for (auto&& kv : v) n += 1 + weight(kv.second); return n; }
	else if constexpr (is_iterable_v<T>) { size_t n = 1; for (auto it = v.begin(); it != v.end(); ++it) { const typename T::value_type& e = *it; n += 1 + weight(e); } return n; }
	else return 1;
}
// what the *data* holds below its top level: bit 0 = an empty string, bit 1 = an empty container, bit 2 = a null optional/pointer
template <class T> unsigned nestedEmpties(const T& v, bool top = true);
template <class Tup, size_t... I> unsigned neTup(const Tup& t, std::index_sequence<I...>) { return (nestedEmpties(std::get<I>(t), false) | ... | 0u); }
template <class T> unsigned nestedEmpties(const T& v, bool top) {
	if constexpr (is_smart_v<T> || is_optional_v<T>) return v ? nestedEmpties(*v, top) : (top ? 0u : 4u);
	else if constexpr (is_string_v<T>) return (!top && v.empty()) ? 1u : 0u;
	else if constexpr (is_pair_v<T>) return nestedEmpties(v.first, false) | nestedEmpties(v.second, false);
	else if constexpr (is_tuple_v<T>) return neTup(v, std::make_index_sequence<std::tuple_size_v<T>>{});
	else if constexpr (has_tie_v<T>) { auto t = T::tie(v); return neTup(t, std::make_index_sequence<std::tuple_size_v<decltype(t)>>{}); }
	else if constexpr (is_adapter_v<T>) return nestedEmpties(baseOf(v), top);
	else if constexpr (is_valarray_v<T>) return (!top && v.size() == 0) ? 2u : 0u;
	else if constexpr (is_bitset_v<T>) return 0u;
	else if constexpr (is_stdarray_v<T>) { unsigned f = 0; for (auto&& e : v) f |= nestedEmpties(e, false); return f; }
	else if constexpr (is_maplike_v<T>) { unsigned f = (!top && v.empty()) ? 2u : 0u; for (auto&& kv : v) f |= nestedEmpties(kv.second, false); return f; }
	else if constexpr (is_iterable_v<T>) { unsigned f = (!top && v.begin() == v.end()) ? 2u : 0u; for (auto it = v.begin(); it != v.end(); ++it) { const typename T::value_type& e = *it; f |= nestedEmpties(e, false); } return f; }
	else return 0u;
}
inline std::string nestedName(unsigned f) {
	if (!f) return "none";
	std::string r; if (f & 1) r += "empty_str"; if (f & 2) r += std::string(r.empty() ? "" : "+") + "empty_cont"; if (f & 4) r += std::string(r.empty() ? "" : "+") + "null";
	return r;
}
inline const char* relation(size_t prior, size_t data) {
	if (!prior && !data) return "both_empty";
	if (!prior) return "prior_empty";
	if (!data) return "data_empty";
	return prior == data ? "equal" : prior > data ? "prior_longer" : "prior_shorter";
}

// ---------------------------------------------------------------------------------------------
// domains
// ---------------------------------------------------------------------------------------------
template <class T> std::vector<T> few(Role r, int pos);
template <class T> std::vector<T> all(Role r, int n);

template <class K> K keyAt(int i) {   // the same key alphabet for both roles: {a, b, c, ...} / {1, 2, 3, ...}
	if constexpr (is_string_v<K>) return K(1, static_cast<typename K::value_type>('a' + i));
	else return static_cast<K>(1 + i);
}
template <class T, class E> T build(std::vector<E>&& es) {
	T r;
	if constexpr (is_valarray_v<T>) { r.resize(es.size()); for (size_t i = 0; i < es.size(); ++i) r[i] = es[i]; }
	else if constexpr (is_adapter_v<T>) { for (auto&& e : es) r.push(std::move(e)); }
	else if constexpr (is_fwdlist_v<T>) { auto it = r.before_begin(); for (auto&& e : es) it = r.insert_after(it, std::move(e)); }
	else if constexpr (is_maplike_v<T>) { for (auto&& e : es) r.emplace(std::move(e.first), std::move(e.second)); }
	else if constexpr (is_keyed_v<T>) { for (auto&& e : es) r.insert(std::move(e)); }
	else { for (auto&& e : es) r.push_back(std::move(e)); }
	return r;
}
template <class E> void dedupe(std::vector<E>& v) {
	std::vector<E> out; std::set<std::string> seen;
	for (auto&& e : v) { const E& x = e; if (seen.insert(show(x)).second) out.push_back(std::move(e)); }
	v = std::move(out);
}
// every combination of one alternative per position -> one container
template <class T, class E> void productInto(const std::vector<std::vector<E>>& alts, std::vector<T>& out) {
	std::vector<size_t> idx(alts.size(), 0);
	for (auto&& a : alts) if (a.empty()) return;
	for (;;) {
		std::vector<E> es; for (size_t i = 0; i < alts.size(); ++i) es.push_back(clone<E>(alts[i][idx[i]]));
		out.push_back(build<T>(std::move(es)));
		size_t k = alts.size();
		while (k > 0) { if (++idx[k - 1] < alts[k - 1].size()) break; idx[k - 1] = 0; --k; }
		if (k == 0) break;
	}
}
// element alternatives for position i of container type T
template <class T> std::vector<elem_t<T>> elemAlts(Role r, int i) {
	using E = elem_t<T>;
	std::vector<E> out;
	if constexpr (is_maplike_v<T>) {
		using K = typename T::key_type; using V = typename T::mapped_type;
		for (auto&& v : few<V>(r, i)) out.push_back(E(keyAt<K>(i), clone<V>(v)));
		if constexpr (is_multi_v<T>) if (i > 0) for (auto&& v : few<V>(r, i)) out.push_back(E(keyAt<K>(0), clone<V>(v)));   // duplicate key
	} else {
		out = few<E>(r, i);
		if constexpr (is_multi_v<T>) if (i > 0) for (auto&& v : few<E>(r, 0)) out.push_back(clone<E>(v));                     // duplicate element
	}
	dedupe(out);
	return out;
}
// sequences: all lengths 0..n; maps (unique keys): all subsets of the first n keys
template <class T> std::vector<T> containers(Role r, int n, int pos0) {
	std::vector<T> out;
	if constexpr (is_maplike_v<T> && !is_multi_v<T>) {
		for (unsigned mask = 0; mask < (1u << n); ++mask) {
			std::vector<std::vector<elem_t<T>>> alts;
			for (int i = 0; i < n; ++i) if (mask & (1u << i)) alts.push_back(elemAlts<T>(r, pos0 + i));
			productInto<T>(alts, out);
		}
	} else {
		for (int k = 0; k <= n; ++k) {
			std::vector<std::vector<elem_t<T>>> alts;
			for (int i = 0; i < k; ++i) alts.push_back(elemAlts<T>(r, pos0 + i));
			productInto<T>(alts, out);
		}
	}
	return out;
}
// tuples, pairs, classes with tie(), std::array: one alternative per member
template <class T, size_t I, class Ref> void memberProduct(Role r, int pos, T& cur, Ref refs, std::vector<T>& out) {
	if constexpr (I == std::tuple_size_v<Ref>) out.push_back(clone(cur));
	else {
		using M = std::decay_t<std::tuple_element_t<I, Ref>>;
		for (auto&& a : few<M>(r, pos)) { std::get<I>(refs) = clone<M>(a); memberProduct<T, I + 1>(r, pos, cur, refs, out); }
	}
}
template <class T, size_t I> void arrayProduct(Role r, int pos, T& cur, std::vector<T>& out) {
	if constexpr (I == std::tuple_size_v<T>) out.push_back(cur);
	else for (auto&& a : few<typename T::value_type>(r, pos + static_cast<int>(I))) { cur[I] = a; arrayProduct<T, I + 1>(r, pos, cur, out); }
}

template <class T> std::vector<T> few(Role r, int pos) {
	std::vector<T> out;
	if constexpr (std::is_same_v<T, bool>) { out.push_back(r == Prior); out.push_back(r != Prior); }
	else if constexpr (std::is_arithmetic_v<T>) out.push_back(static_cast<T>(r == Prior ? 91 + pos : 1 + pos));
	else if constexpr (is_string_v<T>) {
		using C = typename T::value_type;
		out.push_back(T());
		T s; s.push_back(static_cast<C>(r == Prior ? 'P' : 'd')); s.push_back(static_cast<C>('0' + pos)); out.push_back(s);
	}
	else if constexpr (is_optional_v<T>) { out.push_back(T()); for (auto&& v : few<typename T::value_type>(r, pos)) out.push_back(T(clone(v))); }
	else if constexpr (is_unique_v<T>) { out.push_back(nullptr); for (auto&& v : few<typename T::element_type>(r, pos)) out.push_back(std::make_unique<typename T::element_type>(clone(v))); }
	else if constexpr (is_shared_v<T>) { out.push_back(nullptr); for (auto&& v : few<typename T::element_type>(r, pos)) out.push_back(std::make_shared<typename T::element_type>(clone(v))); }
	else if constexpr (is_pair_v<T>) { T cur; memberProduct<T, 0>(r, pos, cur, std::tie(cur.first, cur.second), out); }
	else if constexpr (is_tuple_v<T>) { T cur; memberProduct<T, 0>(r, pos, cur, std::apply([](auto&... m) { return std::tie(m...); }, cur), out); }
	else if constexpr (has_tie_v<T>) { T cur; memberProduct<T, 0>(r, pos, cur, T::tie(cur), out); }
	else if constexpr (is_stdarray_v<T>) { T cur{}; arrayProduct<T, 0>(r, pos, cur, out); }
	else if constexpr (is_bitset_v<T>) {
		if (r == Prior) { T b; b.set(); out.push_back(b); }
		else { out.push_back(T()); T b; for (size_t i = 0; i < b.size(); i += 2) b.set(i); out.push_back(b); }
	}
	else out = containers<T>(r, 2, pos);   // as an element / member: sizes 0, 1, 2
	return out;
}
template <class T> std::vector<T> all(Role r, int n) {
	std::vector<T> out;
	if constexpr (is_string_v<T>) {
		using C = typename T::value_type;
		out = few<T>(r, 0);
		T three; for (int i = 0; i < 3; ++i) three.push_back(static_cast<C>((r == Prior ? 'X' : 'x') + i)); out.push_back(three);
		T lng; for (int i = 0; i < 40; ++i) lng.push_back(static_cast<C>((r == Prior ? 'A' : 'a') + i % 26)); out.push_back(lng);   // beyond the small-string buffer
	}
	else if constexpr (is_optional_v<T>) { out.push_back(T()); for (auto&& v : all<typename T::value_type>(r, n)) out.push_back(T(clone(v))); }
	else if constexpr (is_unique_v<T>) { out.push_back(nullptr); for (auto&& v : all<typename T::element_type>(r, n)) out.push_back(std::make_unique<typename T::element_type>(clone(v))); }
	else if constexpr (is_shared_v<T>) { out.push_back(nullptr); for (auto&& v : all<typename T::element_type>(r, n)) out.push_back(std::make_shared<typename T::element_type>(clone(v))); }
	else if constexpr (is_seqlike_v<T>) out = containers<T>(r, n, 0);
	else out = few<T>(r, 0);
	dedupe(out);
	return out;
}
template <class T> const std::vector<T>& catalogue(Role r, int n) {
	static std::map<std::pair<int, int>, std::vector<T>> cache;
	auto key = std::make_pair(static_cast<int>(r), n);
	auto it = cache.find(key);
	if (it == cache.end()) it = cache.emplace(key, all<T>(r, n)).first;
	return it->second;
}

// ---------------------------------------------------------------------------------------------
// classes used as targets
// ---------------------------------------------------------------------------------------------
struct Row {     // an ordinary two-field class (also the CSV row)
	int x = 0; std::string y;
	template <class S> static auto tie(S& s) { return std::tie(s.x, s.y); }
	static std::string name() { return "Row"; }
	template <class A> void Serialize(A& ar) { ar << BS::KeyValue("x", x) << BS::KeyValue("y", y); }
};
struct Mix {     // a class containing several container-like members
	std::vector<int> v; std::optional<std::string> o; std::shared_ptr<Row> p; std::map<std::string, int> m;
	template <class S> static auto tie(S& s) { return std::tie(s.v, s.o, s.p, s.m); }
	static std::string name() { return "Mix"; }
	template <class A> void Serialize(A& ar) { ar << BS::KeyValue("v", v) << BS::KeyValue("o", o) << BS::KeyValue("p", p) << BS::KeyValue("m", m); }
};
template <class T> struct Box {   // "member" placement: the value under test is a keyed member of an object
	T v{};
	template <class A> void Serialize(A& ar) { ar << BS::KeyValue("v", v); }
};
// MapLoadMode holders: the only way to select a mode is to call the map overload of SerializeObject on an
// object scope oneself (types/std/map.h, unordered_map.h)
template <class M> struct ModeRoot {    // loading only (documents are written from the map itself)
	M m; BS::MapLoadMode mode = BS::MapLoadMode::Clean;
	template <class A> void Serialize(A& ar) { if constexpr (A::IsLoading()) BS::SerializeObject(ar, m, mode); }
};
template <class M> struct ModeMember {
	ModeRoot<M> inner;
	template <class A> void Serialize(A& ar) { ar << BS::KeyValue("v", inner); }
};
inline const char* modeName(int m) { static const char* n[] = {"Clean", "OnlyExistKeys", "UpdateKeys"}; return n[m]; }

// ---------------------------------------------------------------------------------------------
// the case runner
// ---------------------------------------------------------------------------------------------
struct Args { int place = 0, policy = 0, mode = 0, prior = 0, data = 0, n = 3; };
struct Entry {
	std::string name;
	bool rootOk = true;       // can stand at the document root of this archive
	bool memberOk = true;     // can be a keyed member (false for CSV)
	int modes = 1;            // 3 for the MapLoadMode entries
	size_t (*count)(Role, int n) = nullptr;
	void (*run)(bsx::Ctx&, const char* arch, const Args&) = nullptr;
};

template <class A, class T, class In> lib::Out loadAs(T& target, In&& doc, const BS::SerializationOptions& o) { return lib::guard([&] { BS::LoadObject<A>(target, doc, o); }); }
template <class A, class T> lib::Out loadDoc(T& target, const std::string& doc, const BS::SerializationOptions& o) { return loadAs<A>(target, doc, o); }
inline std::string docText(const char* arch, const std::string& doc) { return std::string(arch) == "msgpack" ? bsx::hex(doc) : doc; }

// classification of a difference between the populated result and the expected one
template <class T> std::string diffClass(const T& got, const T& expected) {
	size_t g = weight(got), e = weight(expected);
	return g > e ? "stale_element_survives" : g < e ? "loaded_element_lost" : "value_differs";
}

template <class A, class T, bool RootOk, bool MemberOk> void run(bsx::Ctx& c, const char* arch, const Args& a) {
	const T& P = catalogue<T>(Prior, a.n)[static_cast<size_t>(a.prior)];
	const T& D = catalogue<T>(Data, a.n)[static_cast<size_t>(a.data)];
	const size_t ps = topSize(P), ds = topSize(D);
	const std::string rel = relation(ps, ds);
	const std::string sigbase = std::string("C18/") + arch + (a.place == Root ? "/root" : "/member") + (a.policy ? "/pol=skip" : "/pol=throw") + "/type=" + tname<T>() + "/rel=" + rel + "/nested=" + nestedName(nestedEmpties(D));
	const std::string what = "prior=" + show(P) + " data=" + show(D);
	c.describe(sigbase, what);
	const auto o = lib::opts(true, a.policy == 0);
	// the document: what the library itself writes for the data value
	std::string doc; lib::Out sv;
	if (a.place == Root) { if constexpr (RootOk) { T d = clone(D); sv = lib::guard([&] { BS::SaveObject<A>(d, doc, o); }); } }
	else if constexpr (MemberOk) { Box<T> d; d.v = clone(D); sv = lib::guard([&] { BS::SaveObject<A>(d, doc, o); }); }
	if (!sv.ok()) { c.outcome(std::string(arch) + ":save:" + sv.cls); return; }
	// the two loads
	lib::Out outF, outP; T fresh{}, pop = clone(P);
	if (a.place == Root) { if constexpr (RootOk) { outF = loadDoc<A>(fresh, doc, o); outP = loadDoc<A>(pop, doc, o); } }
	else if constexpr (MemberOk) {
		Box<T> bf, bp; bp.v = std::move(pop);
		outF = loadDoc<A>(bf, doc, o); outP = loadDoc<A>(bp, doc, o);
		fresh = std::move(bf.v); pop = std::move(bp.v);
	}
	c.transition(2);
	c.state(tname<T>() + "|" + std::to_string(ps) + "|" + std::to_string(ds) + "|" + rel);
	if (ps && outF.ok() && !eq(P, fresh)) c.nontrivial(sigbase + what);
	const std::string detail = what + " doc=" + docText(arch, doc);
	if (outF.cls != outP.cls) {
		c.outcome(std::string(arch) + ":differ:" + outF.cls + "|" + outP.cls);
		c.violation(sigbase + "/out=outcome_differs:fresh=" + outF.cls + ",populated=" + outP.cls, "loading into T{} ended with " + outF.cls + " (" + outF.what + "), into the populated target with " + outP.cls + " (" + outP.what + ") | " + detail);
		return;
	}
	if (!outF.ok()) { c.outcome(std::string(arch) + ":both_threw:" + outF.cls + (getenv("C18_DEBUG") ? ":" + tname<T>() + (a.place ? "/member/" : "/root/") + rel + "/" + nestedName(nestedEmpties(D)) : std::string())); return; }   // nothing to compare (array<N> size mismatch cannot happen here; XML empty elements under the Throw policy do)
	c.outcome(std::string(arch) + (eq(fresh, D) ? ":ok:fresh==data" : ":ok:fresh!=data" + (getenv("C18_DEBUG") ? ":" + tname<T>() + (a.place ? "/member/" : "/root/") + rel + "/" + nestedName(nestedEmpties(D)) : std::string())));
	if (a.prior == 1 && a.data == 2 && a.place == Member) c.sample(sigbase + " " + what + " -> " + show(pop));
	if (!eq(pop, fresh))
		c.violation(sigbase + "/out=" + diffClass(pop, fresh), "populated target after load = " + show(pop) + ", fresh target after load = " + show(fresh) + " | " + detail);
}

// MapLoadMode scenario. Clean: differential. OnlyExistKeys / UpdateKeys: the documented behaviour
// (generic_map.h:17-33): only keys that already exist are loaded / existing and new keys are loaded;
// nothing else is touched.
template <class A, class M> void runMapMode(bsx::Ctx& c, const char* arch, const Args& a) {
	const M& P = catalogue<M>(Prior, a.n)[static_cast<size_t>(a.prior)];
	const M& D = catalogue<M>(Data, a.n)[static_cast<size_t>(a.data)];
	size_t common = 0, onlyP = 0, onlyD = 0;
	for (auto&& kv : P) (D.count(kv.first) ? common : onlyP)++;
	for (auto&& kv : D) if (!P.count(kv.first)) ++onlyD;
	// relation of the key sets (named classes, not the sets themselves)
	const std::string rel = P.empty() && D.empty() ? "both_empty" : P.empty() ? "prior_empty" : D.empty() ? "data_empty" : (!onlyP && !onlyD) ? "same_keys" : !common ? "disjoint"
		: !onlyD ? "data_subset" : !onlyP ? "prior_subset" : "overlap";
	const std::string sigbase = std::string("C18/") + arch + (a.place == Root ? "/root" : "/member") + (a.policy ? "/pol=skip" : "/pol=throw") + "/type=" + tname<M>() + "/mode=" + modeName(a.mode) + "/rel=" + rel + "/nested=" + nestedName(nestedEmpties(D));
	const std::string what = "prior=" + show(P) + " data=" + show(D);
	c.describe(sigbase, what);
	const auto o = lib::opts(true, a.policy == 0);
	const auto mode = static_cast<BS::MapLoadMode>(a.mode);
	std::string doc; lib::Out sv, outF, outP; M fresh, pop;
	if (a.place == Root) {
		{ M d = clone(D); sv = lib::guard([&] { BS::SaveObject<A>(d, doc, o); }); }
		if (sv.ok()) {
			ModeRoot<M> hf, hp; hp.m = clone(P); hp.mode = mode;
			outF = loadDoc<A>(hf, doc, o); outP = loadDoc<A>(hp, doc, o);
			fresh = std::move(hf.m); pop = std::move(hp.m);
		}
	} else {
		{ Box<M> d; d.v = clone(D); sv = lib::guard([&] { BS::SaveObject<A>(d, doc, o); }); }
		if (sv.ok()) {
			ModeMember<M> hf, hp; hp.inner.m = clone(P); hp.inner.mode = mode;
			outF = loadDoc<A>(hf, doc, o); outP = loadDoc<A>(hp, doc, o);
			fresh = std::move(hf.inner.m); pop = std::move(hp.inner.m);
		}
	}
	if (!sv.ok()) { c.outcome(std::string(arch) + ":save:" + sv.cls); return; }
	c.transition(2);
	c.state(tname<M>() + "|" + modeName(a.mode) + "|" + std::to_string(P.size()) + "|" + std::to_string(D.size()) + "|" + rel);
	if (!P.empty()) c.nontrivial(sigbase + what);
	const std::string detail = what + " doc=" + docText(arch, doc);
	if (!outF.ok() || !outP.ok()) {
		// a member holding an empty map cannot be opened in XML; with an empty document nothing is visited in any mode
		c.outcome(std::string(arch) + ":modes:threw:" + outF.cls + "|" + outP.cls);
		if (outF.cls != outP.cls && (a.mode == 0 || outF.ok())) c.violation(sigbase + "/out=outcome_differs:fresh=" + outF.cls + ",populated=" + outP.cls, "Clean load into an empty map ended with " + outF.cls + ", " + modeName(a.mode) + " load into the populated map with " + outP.cls + " (" + outP.what + ") | " + detail);
		return;
	}
	c.outcome(std::string(arch) + (eq(fresh, D) ? ":modes:ok:fresh==data" : ":modes:ok:fresh!=data"));
	if (a.prior == 3 && a.data == 5) c.sample(sigbase + " " + what + " -> " + show(pop));
	const std::string res = " | result=" + show(pop) + " fresh=" + show(fresh) + " " + detail;
	if (a.mode == 0) {
		if (!eq(pop, fresh)) c.violation(sigbase + "/out=" + diffClass(pop, fresh), "Clean mode: populated and fresh results differ" + res);
		return;
	}
	// `fresh` = the document as the library reads it into an empty map
	for (auto&& kv : pop) {
		bool inP = P.count(kv.first) != 0, inDoc = fresh.count(kv.first) != 0;
		if (!inP && (a.mode == 1 || !inDoc)) { c.violation(sigbase + "/out=key_added", "key " + show(kv.first) + " appeared" + res); continue; }
		if (inDoc) { if (!eq(kv.second, fresh.find(kv.first)->second)) c.violation(sigbase + "/out=value_not_from_document:" + diffClass(kv.second, fresh.find(kv.first)->second), "value of key " + show(kv.first) + " is not the document's" + res); }
		else if (!eq(kv.second, P.find(kv.first)->second)) c.violation(sigbase + "/out=prior_value_changed", "value of key " + show(kv.first) + " (absent from the document) changed" + res);
	}
	for (auto&& kv : P) if (!pop.count(kv.first)) c.violation(sigbase + "/out=key_removed", "prior key " + show(kv.first) + " disappeared" + res);
	if (a.mode == 2) for (auto&& kv : fresh) if (!pop.count(kv.first)) c.violation(sigbase + "/out=key_not_loaded", "document key " + show(kv.first) + " was not loaded" + res);
}

template <class T> size_t countOf(Role r, int n) { return catalogue<T>(r, n).size(); }

// XmlLikeRoot: the root of the format must be an array or an object
template <class A, class T, bool XmlLikeRoot, bool MemberOk = true> Entry entry() {
	constexpr bool rootOk = !XmlLikeRoot || isCompound<T>();
	Entry e; e.name = tname<T>(); e.rootOk = rootOk; e.memberOk = MemberOk; e.count = &countOf<T>;
	e.run = [](bsx::Ctx& c, const char* arch, const Args& a) { run<A, T, rootOk, MemberOk>(c, arch, a); };
	return e;
}
template <class A, class M> Entry modeEntry() {
	Entry e; e.name = tname<M>() + "@modes"; e.modes = 3; e.count = &countOf<M>;
	e.run = [](bsx::Ctx& c, const char* arch, const Args& a) { runMapMode<A, M>(c, arch, a); };
	return e;
}


template <class T> struct Tag { using type = T; };
// the type catalogue of the nesting formats (MsgPack, JSON, XML)
template <class A, bool XmlLikeRoot, int Part> std::vector<Entry> makeTable() {
	using std::string; using std::vector;
	std::vector<Entry> t;
	auto add = [&](auto tag) { using T = typename decltype(tag)::type; t.push_back(entry<A, T, XmlLikeRoot>()); };
	auto addModes = [&](auto tag) { using T = typename decltype(tag)::type; t.push_back(modeEntry<A, T>()); };
#define C18_T(...) add(Tag<__VA_ARGS__>{})
#define C18_M(...) addModes(Tag<__VA_ARGS__>{})
	if constexpr (Part == 0) {
	// SerializeContainer family
	C18_T(vector<int>); C18_T(vector<string>); C18_T(vector<bool>); C18_T(vector<vector<int>>); C18_T(vector<std::optional<int>>);
	C18_T(vector<std::unique_ptr<int>>); C18_T(vector<Row>);
	C18_T(std::deque<int>); C18_T(std::deque<std::optional<string>>); C18_T(std::list<int>); C18_T(std::list<vector<int>>);
	C18_T(std::forward_list<int>); C18_T(std::forward_list<string>);
	C18_T(std::valarray<int>); C18_T(std::queue<int>); C18_T(std::stack<int>); C18_T(std::priority_queue<int>); C18_T(std::queue<string>);
	// fixed size
	C18_T(std::array<int, 3>); C18_T(std::array<string, 2>); C18_T(std::bitset<5>); C18_T(std::pair<int, string>); C18_T(std::tuple<int, string, bool>);
	C18_T(std::tuple<vector<int>, std::optional<int>>);
	} else {
	// sets
	C18_T(std::set<int>); C18_T(std::set<string>); C18_T(std::multiset<int>); C18_T(std::unordered_set<int>); C18_T(std::unordered_multiset<int>);
	// maps, default mode
	C18_T(std::map<string, int>); C18_T(std::map<int, string>); C18_T(std::map<string, vector<int>>); C18_T(std::multimap<string, int>); C18_T(std::multimap<int, int>);
	C18_T(std::unordered_map<string, int>); C18_T(std::unordered_map<int, int>); C18_T(std::unordered_multimap<string, int>);
	// optional / smart pointers / strings
	C18_T(std::optional<int>); C18_T(std::optional<string>); C18_T(std::optional<vector<int>>);
	C18_T(std::unique_ptr<int>); C18_T(std::shared_ptr<int>); C18_T(std::unique_ptr<Row>); C18_T(std::shared_ptr<Row>); C18_T(std::shared_ptr<vector<int>>);
	C18_T(string); C18_T(std::u16string);
	// a class containing several of them
	C18_T(Mix);
	// MapLoadMode
	C18_M(std::map<string, int>); C18_M(std::unordered_map<string, int>); C18_M(std::map<int, int>); C18_M(std::map<string, vector<int>>); C18_M(std::unordered_map<int, string>);
	}
#undef C18_T
#undef C18_M
	return t;
}

} // namespace c18

// two translation units per archive (compile time): part 0 = sequence / fixed-size types, part 1 = sets, maps, optional, pointers, strings, class, map modes
std::vector<c18::Entry> c18_table_msgpack(int part);
std::vector<c18::Entry> c18_table_json(int part);
std::vector<c18::Entry> c18_table_xml(int part);
