// C18 — loading into a populated target gives the same result as loading into a fresh one.
//
// State space: (container type, prior content of the target, document content); the transition is
// the real LoadObject. For every catalogue type (harness/c18_common.hpp: makeTable) ALL pairs
// (prior value, data value) with top-level sizes 0..n (quick 3, thorough 4; CSV 5 / 6) on both sides are executed, in the archives
// MsgPack / JSON / XML (root placement and keyed-member placement, Throw and Skip mismatch policy)
// and CSV (sequence containers of row objects at the root). The document is what SaveObject writes
// for the data value. Oracle (differential, no expected values written by hand):
//     load(doc -> prior)  ==  load(doc -> T{})
// by the container's own equality (unordered containers as sets, adapters by draining copies, smart
// pointers by pointee). MapLoadMode scenario: Clean = the same differential; OnlyExistKeys /
// UpdateKeys = the documented key-set behaviour with values taken from the document.
//
// Translation units: this file (engine, CSV) and c18_pt_{msgpack,json,xml}_{a,b}.cpp (the type catalogue
// instantiated per archive, in two halves to keep the sanitizer build time per unit low).
#include "harness/c18_common.hpp"
#include "bitserializer/csv_archive.h"

using c18::Entry; using c18::Args;

static const std::vector<Entry>& tableCsv() {
	using A = BitSerializer::Csv::CsvArchive; using c18::Row;
	static const std::vector<Entry> t = [] {
		std::vector<Entry> v;
		v.push_back(c18::entry<A, std::vector<Row>, false, false>());
		v.push_back(c18::entry<A, std::deque<Row>, false, false>());
		v.push_back(c18::entry<A, std::list<Row>, false, false>());
		v.push_back(c18::entry<A, std::forward_list<Row>, false, false>());   // the only format whose arrays report no size: forward_list's resize(1) seed
		return v;
	}();
	return t;
}

static std::vector<Entry> join(std::vector<Entry> a, const std::vector<Entry>& b) { a.insert(a.end(), b.begin(), b.end()); return a; }
static int gBound = 3;     // top-level sizes 0..gBound

static void body(bsx::Ctx& c) {
	static const char* archNames[] = {"msgpack", "json", "xml", "csv"};
	int arch = c.choose(4, "archive");
	static const std::vector<Entry> tabs[4] = {join(c18_table_msgpack(0), c18_table_msgpack(1)), join(c18_table_json(0), c18_table_json(1)), join(c18_table_xml(0), c18_table_xml(1)), tableCsv()};
	const std::vector<Entry>& tab = tabs[arch];
	const Entry& e = tab[static_cast<size_t>(c.choose(static_cast<int>(tab.size()), "type"))];
	Args a; a.n = arch == 3 ? gBound + 2 : gBound;   // CSV rows are cheap and CSV is the only archive whose arrays report no size: go further
	// placement x policy x map mode in one choice (keeps the partition depth fixed)
	std::vector<std::array<int, 3>> cfgs;
	for (int place = 0; place < 2; ++place) {
		if ((place == c18::Root && !e.rootOk) || (place == c18::Member && !e.memberOk)) continue;
		for (int pol = 0; pol < 2; ++pol) for (int m = 0; m < e.modes; ++m) cfgs.push_back({place, pol, m});
	}
	const auto& cf = cfgs[static_cast<size_t>(c.choose(static_cast<int>(cfgs.size()), "place_policy_mode"))];
	a.place = cf[0]; a.policy = cf[1]; a.mode = cf[2];
	a.prior = c.choose(static_cast<int>(e.count(c18::Prior, a.n)), "prior");
	a.data = c.choose(static_cast<int>(e.count(c18::Data, a.n)), "data");
	e.run(c, archNames[arch], a);
}

int main(int argc, char** argv) {
	bsx::Config cfg; cfg.part_depth = 4; cfg.max_dev = 0; cfg.hang_s = 10;
	bsx::Engine e("C18", body, cfg);
	e.mTierSetup = [](const std::string& tier, bsx::Config&) { gBound = tier == "thorough" ? 4 : 3; };
	return e.main(argc, argv);
}
