// C04 — numbers load exactly or are reported per policy, never silently altered.
// E1 (bounded exhaustive): (1) Convert::To / TryTo for all 144 ordered pairs over {bool, char, (u)int8..64,
// float, double}: every value of the 8/16-bit sources, boundary lattice for the wider and floating
// sources; (2) the same (value, target) pairs carried by every archive position: every MsgPack format
// able to hold the value x {root, element, member} x {memory, stream}; JSON literal classes x {root,
// element, member}; XML element text x {element, member}; XML attribute; CSV cell; map keys (MsgPack typed
// and text keys, JSON member names, CSV header) x OverflowNumberPolicy x MismatchedTypesPolicy.
// Oracle: models/num_model.hpp (exact __int128 / mantissa arithmetic) = set of allowed outcomes.
// The other translation units (c04_carrier_*.cpp) hold the archive instantiations.
#include "harness/c04_common.hpp"

using namespace c04;

static bool gThorough = false;

// ---- alphabets -------------------------------------------------------------------------------------------
static const i128 I64MIN = static_cast<i128>(INT64_MIN), U64MAX = static_cast<i128>(UINT64_MAX);

struct Alphabets {
	std::vector<LV> mpInts, jsonInts, f32, f64, keyInts;
	void build(bool thorough) {
		// quick: exponents at the type limits and mantissa widths, no 2^k+-2^j; thorough: all exponents, 2^k+-2^j
		const std::vector<int> ks = exponents(thorough);
		mpInts = intLattice(thorough, I64MIN, U64MAX, ks);
		jsonInts = intLattice(thorough, -p2(65) - 3, p2(65) + 3, ks);   // text carriers can hold integers beyond 64 bits
		keyInts = intLattice(false, -p2(65) - 3, p2(65) + 3, ks);
		f32 = f32Lattice(ks); f64 = f64Lattice(ks);
	}
};
static Alphabets gA;

static std::string fltText(const Val& v, bool expForm) {
	char buf[64];
	if (v.k == Val::F32) { float f; std::memcpy(&f, &v.f32, 4); snprintf(buf, sizeof buf, expForm ? "%.8e" : "%.9g", static_cast<double>(f)); }
	else snprintf(buf, sizeof buf, expForm ? "%.16e" : "%.17g", v.asDouble());
	return buf;
}
static bool finite(const Val& v) { return !(v.k == Val::F32 || v.k == Val::F64) || std::isfinite(v.asDouble()); }
static const char* sweepClass(i128 v) { return v >= -128 && v <= 255 ? "8bit_exhaustive" : "16bit_exhaustive"; }

// ---- (1) direct conversions ------------------------------------------------------------------------------
template <class X> constexpr int typeIndex() {
	if constexpr (std::is_same_v<X, bool>) return TBool; else if constexpr (std::is_same_v<X, char>) return TChar;
	else if constexpr (std::is_same_v<X, int8_t>) return TI8; else if constexpr (std::is_same_v<X, uint8_t>) return TU8;
	else if constexpr (std::is_same_v<X, int16_t>) return TI16; else if constexpr (std::is_same_v<X, uint16_t>) return TU16;
	else if constexpr (std::is_same_v<X, int32_t>) return TI32; else if constexpr (std::is_same_v<X, uint32_t>) return TU32;
	else if constexpr (std::is_same_v<X, int64_t>) return TI64; else if constexpr (std::is_same_v<X, uint64_t>) return TU64;
	else if constexpr (std::is_same_v<X, float>) return TF32; else return TF64;
}
template <class X> bool sameBits(X a, X b) { return std::memcmp(&a, &b, sizeof(X)) == 0; }

template <class S, class D>
static void directOne(Collector& col, const char* srcCls, S s, bool describe) {
	constexpr int st = typeIndex<S>(), tt = typeIndex<D>();
	const Val sv = toVal(s);
	const std::string sig = std::string("C04/direct/from=") + tname(st) + "/src=" + sigClass(srcCls) + "/rel=" + relation(sv, tt) + "/target=" + tname(tt);
	if (describe) col.c.describe(sig, std::string("Convert::To<") + tname(tt) + ">(" + tname(st) + " " + valText(sv) + ") [" + srcCls + "]");
	model::Expect e = model::expectScalar(sv, kindOf(tt), true, true);
	// a direct conversion has no "other kind": only floating -> integer/bool may be refused altogether (invalid_argument)
	constexpr bool refusable = std::is_floating_point_v<S> && !std::is_floating_point_v<D>;
	if (!refusable) e.allowed &= ~static_cast<unsigned>(model::ThrowMismatch);
	e.allowed &= ~static_cast<unsigned>(model::NotLoaded);
	// independent cross-check of the model's representability decision
	if constexpr (!std::is_floating_point_v<S>) {
		const i128 x = static_cast<i128>(s); bool fits;
		if constexpr (std::is_same_v<D, bool>) fits = x == 0 || x == 1;
		else if constexpr (std::is_integral_v<D>) fits = x >= static_cast<i128>(std::numeric_limits<D>::lowest()) && x <= static_cast<i128>(std::numeric_limits<D>::max());
		else fits = relation(sv, tt) == "fits";
		if (fits != ((e.allowed & model::Exact) != 0)) col.add("C04/selfcheck/model_vs_limits/target=" + std::string(tname(tt)), "model::expectScalar and the independent range test disagree for " + valText(sv));
	}
	Loaded r; D dval{};
	try { dval = BS::Convert::To<D>(s); r.out.cls = "ok"; r.loaded = true; r.value = toVal(dval); }
	catch (const std::out_of_range& ex) { r.out.cls = "ser:Overflow"; r.out.what = ex.what(); }
	catch (const std::invalid_argument& ex) { r.out.cls = "ser:MismatchedTypes"; r.out.what = ex.what(); }
	catch (const std::exception& ex) { r.out.cls = "std:" + bsx::demangle(typeid(ex).name()); r.out.what = ex.what(); }
	col.c.outcome(r.out.cls == "ok" ? "direct:value" : r.out.cls == "ser:Overflow" ? "direct:out_of_range" : r.out.cls == "ser:MismatchedTypes" ? "direct:invalid_argument" : "direct:" + r.out.cls);
	std::string why, out = verdict(e, r, why);
	if (out == "wrong_error:Overflow") out = "wrong_error:out_of_range"; else if (out == "wrong_error:MismatchedTypes") out = "wrong_error:invalid_argument";
	if (!out.empty()) col.add(sig + "/api=To/out=" + out, why + " | Convert::To<" + tname(tt) + ">(" + tname(st) + " " + valText(sv) + ") [" + srcCls + "] | allowed: " + allowedText(e));
	// TryTo must tell the same story
	std::optional<D> o = BS::Convert::TryTo<D>(s);
	if (o.has_value() != r.loaded || (o && !sameBits(*o, dval)))
		col.add(sig + "/api=TryTo/out=disagrees_with_To", std::string("TryTo returned ") + (o ? valText(toVal(*o)) : "nullopt") + " while To " + (r.loaded ? "returned " + valText(r.value) : "threw " + r.out.what));
}

template <class S> static void directSweepBlock(bsx::Ctx& c, int tt, int block, int nblocks) {
	Collector col(c);
	const long lo = static_cast<long>(std::numeric_limits<S>::lowest()), hi = static_cast<long>(std::numeric_limits<S>::max());
	const long n = hi - lo + 1, per = (n + nblocks - 1) / nblocks, b0 = lo + per * block, b1 = std::min(hi, b0 + per - 1);
	const char* cls = sizeof(S) == 1 ? (std::is_same_v<S, bool> ? "bool_exhaustive" : "8bit_exhaustive") : "16bit_exhaustive";
	withType(tt, [&](auto tag) {
		using D = typename decltype(tag)::type;
		c.describe(std::string("C04/direct/from=") + tname(typeIndex<S>()) + "/src=" + cls + "/target=" + tname(tt), bsx::fmt("values %ld..%ld", b0, b1));
		for (long x = b0; x <= b1; ++x) directOne<S, D>(col, cls, static_cast<S>(x), false);
		return 0;
	});
	c.evals(static_cast<uint64_t>(b1 - b0 + 1) * 2); c.nontrivial(bsx::fmt("direct-sweep/%d/%d/%d", typeIndex<S>(), tt, block));
	col.flush();
}

static const std::vector<LV>& directLattice(int st) {
	static std::vector<LV> L[NT];
	if (L[st].empty()) {
		switch (st) {
		case TI32: L[st] = intLattice(true, INT32_MIN, INT32_MAX); break; case TU32: L[st] = intLattice(true, 0, UINT32_MAX); break;
		case TI64: L[st] = intLattice(true, I64MIN, INT64_MAX); break; case TU64: L[st] = intLattice(true, 0, U64MAX); break;
		case TF32: L[st] = f32Lattice(); break; default: L[st] = f64Lattice();
		}
	}
	return L[st];
}

static void scenDirect(bsx::Ctx& c, bool lattice) {
	static const int small[] = {TBool, TChar, TI8, TU8, TI16, TU16}, wide[] = {TI32, TU32, TI64, TU64, TF32, TF64};
	const int st = (lattice ? wide : small)[c.choose(6, "source type")];
	const int tt = c.choose(NT, "target type");
	if (!lattice) {
		const int nb = (st == TI16 || st == TU16) ? 16 : 1;
		const int blk = c.choose(16, "block"); if (blk >= nb) { c.outcome("n/a"); return; }
		withType(st, [&](auto tag) { using S = typename decltype(tag)::type; if constexpr (sizeof(S) <= 2) directSweepBlock<S>(c, tt, blk, nb); return 0; });
		return;
	}
	const auto& L = directLattice(st);
	const int NB = 32, per = static_cast<int>((L.size() + NB - 1) / NB);
	const int blk = c.choose(NB, "value block");
	const int idx = blk * per + c.choose(per, "value");
	if (idx >= static_cast<int>(L.size())) { c.outcome("n/a"); return; }
	const LV& lv = L[static_cast<size_t>(idx)];
	Collector col(c);
	withType(st, [&](auto stag) {
		using S = typename decltype(stag)::type;
		if constexpr (sizeof(S) >= 4) {
			S s;
			if constexpr (std::is_same_v<S, float>) std::memcpy(&s, &lv.v.f32, 4); else if constexpr (std::is_same_v<S, double>) std::memcpy(&s, &lv.v.f64, 8); else s = static_cast<S>(lv.v.i);
			withType(tt, [&](auto ttag) { using D = typename decltype(ttag)::type; directOne<S, D>(col, lv.cls.c_str(), s, true); return 0; });
		}
		return 0;
	});
	c.evals(1); c.nontrivial(bsx::fmt("direct/%d/%d/", st, tt) + lv.v.dump());
	if (idx == 7 && tt == TU8) c.sample(std::string("Convert::To<u8>(") + tname(st) + " " + valText(lv.v) + ")");
	col.flush();
}

// ---- (2) archive carriers ---------------------------------------------------------------------------------
static const char* kPos[] = {"root", "elem", "member", "attr", "cell", "key"};
enum Carrier { CMsgPack, CJson, CXml, CCsv };
static const char* kCarrier[] = {"msgpack", "json", "xml", "csv"};

static std::string sigOf(const char* carrier, int pos, const std::string& enc, const Source& s, int target) {
	return std::string("C04/") + carrier + "/pos=" + kPos[pos] + "/enc=" + enc + "/src=" + sigClass(s.cls) + "/rel=" + relation(s.v, target) + "/target=" + tname(target);
}

static std::string mpFormatName(const std::string& inner) {
	unsigned fb = static_cast<unsigned char>(inner[0]);
	if (fb <= 0x7f) fb = 0x00; else if (fb <= 0x8f) fb = 0x80; else if (fb <= 0x9f) fb = 0x90; else if (fb <= 0xbf) fb = 0xa0; else if (fb >= 0xe0) fb = 0xe0;
	return bsx::fmt("%02x", fb);
}
static std::string mpDoc(int pos, const std::string& inner) {
	if (pos == 0) return inner;
	if (pos == 1) return std::string("\x92") + inner + "\x2a";
	return std::string("\x82\xa1" "a") + inner + "\xa1" "z\x2a";
}
// every MsgPack encoding of a scalar (one format choice); composites canonical
static std::vector<std::string> mpEncodings(const Val& v) {
	std::vector<std::string> r;
	if (v.k == Val::Int || v.k == Val::F32) {
		int n = 1; ref::mp::encode(v, [&](int k, const char*) { n = k; return 0; });
		for (int a = 0; a < n; ++a) r.push_back(ref::mp::encode(v, [&](int, const char*) { return a; }));
	} else r.push_back(ref::mp::encode(v));
	return r;
}

static void mpCase(Collector& col, int pos, int target, const Source& s) {
	for (const std::string& inner : mpEncodings(s.v)) {
		// a float32 written as float64 is a float64 document value
		Source eff = s; if (s.v.k == Val::F32 && static_cast<unsigned char>(inner[0]) == 0xcb) { float f; std::memcpy(&f, &s.v.f32, 4); eff.v = Val::dbl(f); }
		const std::string doc = mpDoc(pos, inner), sig = sigOf("msgpack", pos, mpFormatName(inner), eff, target);
		for (int rd = 0; rd < 2; ++rd) {
			judge4(col, sig, eff, target, std::string(rd ? "stream " : "memory ") + bsx::hex(doc), [&](bool ovT, bool mmT) {
				Req q; q.target = target; q.pos = pos; q.ovT = ovT; q.mmT = mmT; q.stream = rd == 1; q.boolCanary = boolCanaryFor(eff.v);
				return loadMsgPack(doc, q);
			});
			col.c.evals(static_cast<uint64_t>(__builtin_popcount(gPolMask)));
		}
		col.c.nontrivial(sig + bsx::hex(inner));
	}
}

static std::string jsonDoc(int pos, const std::string& lit) { return pos == 0 ? lit : pos == 1 ? "[" + lit + ",42]" : "{\"a\":" + lit + ",\"z\":42}"; }
static bool gJsonStreamToo = false;   // lattice scenarios also load through the stream reader (own parse call in the archive)
static void jsonCase(Collector& col, int pos, int target, const Source& s, const std::string& enc, const std::string& lit) {
	const std::string doc = jsonDoc(pos, lit), sig = sigOf("json", pos, enc, s, target);
	for (int rd = 0; rd < (gJsonStreamToo ? 2 : 1); ++rd) {
		judge4(col, sig, s, target, (rd ? "stream " : "") + doc, [&](bool ovT, bool mmT) { Req q; q.target = target; q.pos = pos; q.ovT = ovT; q.mmT = mmT; q.stream = rd == 1; q.boolCanary = boolCanaryFor(s.v); return loadJson(doc, q); });
		col.c.evals(static_cast<uint64_t>(__builtin_popcount(gPolMask)));
	}
	col.c.nontrivial(sig + lit);
}
// JSON literal classes of an integer: plain (an integer document value), exponent / fraction form (a floating document value)
static void jsonIntCases(Collector& col, int pos, int target, const char* cls, i128 v) {
	const std::string dec = ref::i128str(v);
	Source s; s.cls = cls; s.v = Val::integer(v);
	jsonCase(col, pos, target, s, "plain", dec);
	for (int form = 0; form < 2; ++form) {
		const std::string lit = dec + (form ? ".0" : "e0");
		Source f; f.cls = cls; f.v = Val::dbl(strtod(lit.c_str(), nullptr));
		jsonCase(col, pos, target, f, form ? "frac0" : "exp0", lit);
	}
}

static std::string textDoc(int carrier, int pos, const std::string& t) {
	if (carrier == CCsv) return "a,z\r\n" + t + ",42\r\n";
	if (pos == 1) return "<?xml version=\"1.0\"?><array><value>" + t + "</value><value>42</value></array>";
	if (pos == 2) return "<?xml version=\"1.0\"?><root><a>" + t + "</a><z>42</z></root>";
	return "<?xml version=\"1.0\"?><root a=\"" + t + "\" z=\"42\"/>";
}
static void textCase(Collector& col, int carrier, int pos, int target, Source s, const std::string& enc, const std::string& text) {
	s.textual = true; s.text = text;
	const std::string doc = textDoc(carrier, pos, text), sig = sigOf(kCarrier[carrier], pos, enc, s, target);
	judge4(col, sig, s, target, doc, [&](bool ovT, bool mmT) {
		Req q; q.target = target; q.pos = pos; q.ovT = ovT; q.mmT = mmT; q.boolCanary = boolCanaryFor(s.v);
		return carrier == CCsv ? loadCsv(doc, q) : loadXml(doc, q);
	});
	col.c.evals(static_cast<uint64_t>(__builtin_popcount(gPolMask))); col.c.nontrivial(sig + text);
}

// the lattice of one carrier as a flat list of (source, enc, literal) generators
struct Item { Source s; int kind; };   // kind: 0 int, 1 float, 2 bool, 3 other/special text
static std::vector<Item> carrierItems(int carrier) {
	std::vector<Item> r;
	auto src = [](const std::string& cls, const Val& v) { Source s; s.cls = cls; s.v = v; return s; };
	for (auto& lv : (carrier == CMsgPack ? gA.mpInts : gA.jsonInts)) r.push_back({src(lv.cls, lv.v), 0});
	for (auto& lv : gA.f32) if (carrier == CMsgPack || finite(lv.v)) r.push_back({src(lv.cls, lv.v), 1});
	for (auto& lv : gA.f64) if (carrier == CMsgPack || finite(lv.v)) r.push_back({src(lv.cls, lv.v), 1});
	r.push_back({src("bool:false", Val::boolean(false)), 2}); r.push_back({src("bool:true", Val::boolean(true)), 2});
	if (carrier == CMsgPack || carrier == CJson) {
		r.push_back({src("nil", Val::nil()), 3}); r.push_back({src("str:a", Val::str("a")), 3}); r.push_back({src("str:digits", Val::str("12")), 3});
		r.push_back({src("arr:[1,2]", Val::arr({Val::integer(1), Val::integer(2)})), 3}); r.push_back({src("map:{x:1}", Val::map({{Val::str("x"), Val::integer(1)}})), 3});
		if (carrier == CMsgPack) r.push_back({src("bin:2", Val::bin(std::string("\x01\xff", 2))), 3});
	} else {
		for (const char* t : {"abc", "inf", "-inf", "nan", "+5", "-"}) r.push_back({src(std::string("text:") + t, Val::str(t)), 3});
	}
	return r;
}
static const std::vector<Item>& itemsOf(int carrier) { static std::vector<Item> I[4]; if (I[carrier].empty()) I[carrier] = carrierItems(carrier); return I[carrier]; }

static void runItem(Collector& col, int carrier, int pos, int target, const Item& it) {
	const Source& s = it.s;
	if (carrier == CMsgPack) { mpCase(col, pos, target, s); return; }
	if (carrier == CJson) {
		if (it.kind == 0) { jsonIntCases(col, pos, target, s.cls.c_str(), s.v.i); if (s.v.i == 0) { Source z = s; z.cls = "int:-0"; jsonCase(col, pos, target, z, "neg0", "-0"); } return; }
		if (it.kind == 1) { for (int ef = 0; ef < 2; ++ef) { std::string lit = fltText(s.v, ef); if (!ef && lit.find_first_of(".e") == std::string::npos) lit += ".0"; Source f = s; f.v = Val::dbl(strtod(lit.c_str(), nullptr)); jsonCase(col, pos, target, f, ef ? "exp" : "plain_float", lit); } return; }
		if (it.kind == 2) { jsonCase(col, pos, target, s, "literal", s.v.b ? "true" : "false"); return; }
		const std::string lit = s.v.k == Val::Nil ? "null" : s.v.k == Val::Str ? "\"" + s.v.s + "\"" : s.v.k == Val::Arr ? "[1,2]" : "{\"x\":1}";
		jsonCase(col, pos, target, s, "other", lit); return;
	}
	// XML / CSV: everything is text
	if (it.kind == 0) {
		const std::string dec = ref::i128str(s.v.i);
		textCase(col, carrier, pos, target, s, "plain", dec);
		for (int form = 0; form < 2; ++form) textCase(col, carrier, pos, target, s, form ? "frac0" : "exp0", dec + (form ? ".0" : "e0"));
		return;
	}
	if (it.kind == 1) { for (int ef = 0; ef < 2; ++ef) { const std::string t = fltText(s.v, ef); textCase(col, carrier, pos, target, s, ef ? "exp" : (t.find('e') != std::string::npos ? "plain_g_exp" : "plain_g"), t); } return; }
	if (it.kind == 2) { textCase(col, carrier, pos, target, s, "literal", s.v.b ? "true" : "false"); return; }
	textCase(col, carrier, pos, target, s, "other", s.v.s);
}

static int posOf(int carrier, int pi) { return carrier == CXml ? pi + 1 : carrier == CCsv ? 4 : pi; }
static int nPos(int carrier) { return carrier == CCsv ? 1 : 3; }

static void scenCarrierLattice(bsx::Ctx& c, int carrier) {
	const int pi = c.choose(nPos(carrier), "position"), pos = posOf(carrier, pi);
	const int target = c.choose(NT, "target type");
	const auto& I = itemsOf(carrier);
	const int NB = 32, per = static_cast<int>((I.size() + NB - 1) / NB);
	const int blk = c.choose(NB, "value block");
	const int idx = blk * per + c.choose(per, "value");
	if (idx >= static_cast<int>(I.size())) { c.outcome("n/a"); return; }
	// the 2^k+-2^j family (thorough) runs at one position per code path, like the 16-bit sweeps
	const bool primary = carrier == CMsgPack || carrier == CJson ? pos == 0 : carrier == CXml ? pos >= 2 : true;
	if (!primary && I[static_cast<size_t>(idx)].s.cls.find("2^j") != std::string::npos) { c.outcome("n/a:2^k+-2^j_runs_at_the_primary_position"); return; }
	Collector col(c);
	if (idx == 40 && target == TU8 && pi == 0) c.sample(std::string(kCarrier[carrier]) + " " + kPos[pos] + " <- " + valText(I[static_cast<size_t>(idx)].s.v) + " into u8");
	gJsonStreamToo = true;
	runItem(col, carrier, pos, target, I[static_cast<size_t>(idx)]);
	gJsonStreamToo = false;
	col.flush();
}

// All integers of the 8/16-bit types (-32768..65535; quick: -128..255), in blocks of 128. The 8-bit range runs at every
// position, both MsgPack readers and all four policy pairs; the rest of the 16-bit range at one position per code path
// (MsgPack root with both readers, JSON root, XML member and attribute, CSV cell) with the policy pairs TT and SS.
static void sweepRange(long& lo, long& hi) { if (gThorough) { lo = -32768; hi = 65535; } else { lo = -128; hi = 255; } }
static void scenCarrierSweep(bsx::Ctx& c, int carrier) {
	const int pi = c.choose(nPos(carrier), "position"), pos = posOf(carrier, pi);
	const int target = c.choose(NT, "target type");
	long lo, hi; sweepRange(lo, hi);
	const int nb = static_cast<int>((hi - lo + 1) / 128);
	const int blk = c.choose(nb, "block");
	const long b0 = lo + 128L * blk, b1 = b0 + 127;
	const bool eightBit = b0 >= -128 && b1 <= 255;
	const bool primary = carrier == CMsgPack || carrier == CJson ? pos == 0 : carrier == CXml ? pos >= 2 : true;
	if (!eightBit && !primary) { c.outcome("n/a:16bit_range_runs_at_the_primary_position"); return; }
	Collector col(c);
	gPolMask = eightBit ? 0xF : 0x9;
	for (long x = b0; x <= b1; ++x) {
		Item it; it.kind = 0; it.s.cls = sweepClass(x); it.s.v = Val::integer(x);
		if (carrier == CMsgPack || carrier == CJson) runItem(col, carrier, pos, target, it);
		else textCase(col, carrier, pos, target, it.s, "plain", std::to_string(x));   // exponent / fraction forms: lattice only
		c.heartbeat();
	}
	gPolMask = 0xF;
	col.flush();
}

// ---- map key position ---------------------------------------------------------------------------------------
// Document: { <sentinel key>: 9, <key under test>: 7 }, target std::map<K, int32_t>.
static void mapJudge(Collector& col, int carrier, const std::string& enc, const Source& s, int target, const std::string& doc, int sentinel, bool stream) {
	const std::string sig = sigOf(kCarrier[carrier], 5, enc, s, target);
	judge4(col, sig, s, target, (carrier == CMsgPack ? std::string(stream ? "stream " : "memory ") + bsx::hex(doc) : doc), [&](bool ovT, bool mmT) {
		Req q; q.target = target; q.ovT = ovT; q.mmT = mmT; q.stream = stream;
		MapLoaded m = carrier == CMsgPack ? loadMapMsgPack(doc, q) : carrier == CJson ? loadMapJson(doc, q) : loadMapCsv(doc, q);
		Loaded r; r.out = m.out; r.canaryIntact = true;
		if (!m.out.ok()) return r;
		const Val sentKey = withType(target, [&](auto tag) { using X = typename decltype(tag)::type; return toVal(static_cast<X>(sentinel)); });
		bool sentOk = false; int others = 0;
		for (auto& e : m.entries) {
			if (sameMath(e.first, sentKey) && e.second == 9) { sentOk = true; continue; }
			if (sameMath(e.first, sentKey) && e.second == 7) { sentOk = true; r.loaded = true; r.value = e.first; ++others; continue; }   // the key under test was turned into the sentinel's key
			++others; r.loaded = true; r.value = e.first;
			if (e.second != 7) { r.neighbourOk = false; r.note = bsx::fmt("(key under test maps to %d, expected 7)", static_cast<int>(e.second)); }
		}
		if (!sentOk) { r.neighbourOk = false; r.note += "(sentinel entry missing or changed)"; }
		if (others > 1) { r.neighbourOk = false; r.note += bsx::fmt("(%d unexpected entries)", others); }
		return r;
	});
	col.c.evals(static_cast<uint64_t>(__builtin_popcount(gPolMask))); col.c.nontrivial(sig + doc);
}
static int sentinelFor(const Source& s, int target) {
	// the sentinel key must differ from whatever the key under test may legitimately become
	model::Expect e = expectFor(s, target, true, true);
	auto isOne = [](const Val& v) { return v.k == Val::Bool ? v.b : v.k == Val::Int ? v.i == 1 : (v.k == Val::F32 || v.k == Val::F64) ? v.asDouble() == 1.0 : false; };
	if (((e.allowed & model::Exact) && isOne(e.exact)) || ((e.allowed & model::Nearest) && isOne(e.nearest))) return 0;
	return 1;
}
static void mapCase(Collector& col, int carrier, int target, const Item& it) {
	Source s = it.s;
	if ((target == TF32 || target == TF64) && (s.v.k == Val::F32 || s.v.k == Val::F64) && std::isnan(s.v.asDouble())) { col.c.outcome("n/a:nan_key"); return; }   // NaN is no usable std::map key
	std::vector<std::pair<std::string, std::string>> texts;   // (enc, text) for text keys
	if (it.kind == 0) { const std::string dec = ref::i128str(s.v.i); texts = {{"plain", dec}, {"exp0", dec + "e0"}, {"frac0", dec + ".0"}}; }
	else if (it.kind == 1) { if (finite(s.v)) { std::string g = fltText(s.v, false); texts = {{g.find('e') != std::string::npos ? "plain_g_exp" : "plain_g", g}, {"exp", fltText(s.v, true)}}; } else texts = {{"other", std::isnan(s.v.asDouble()) ? "nan" : s.v.asDouble() < 0 ? "-inf" : "inf"}}; }
	else if (it.kind == 2) texts = {{"literal", s.v.b ? "true" : "false"}};
	else texts = {{"other", s.v.s}};
	if (carrier == CMsgPack && it.kind <= 1 && !(it.kind == 0 && (s.v.i < I64MIN || s.v.i > U64MAX))) {
		// typed keys: every format of the value (integers beyond 64 bits exist as text keys only)
		for (const std::string& inner : mpEncodings(s.v)) {
			Source eff = s; if (s.v.k == Val::F32 && static_cast<unsigned char>(inner[0]) == 0xcb) { float f; std::memcpy(&f, &s.v.f32, 4); eff.v = Val::dbl(f); }
			const int sent = sentinelFor(eff, target);
			const std::string doc = std::string("\x82") + std::string(1, static_cast<char>(sent)) + "\x09" + inner + "\x07";
			for (int rd = 0; rd < 2; ++rd) mapJudge(col, carrier, mpFormatName(inner), eff, target, doc, sent, rd == 1);
		}
	}
	for (auto& et : texts) {
		Source t = s; t.textual = true; t.text = et.second;
		const int sent = sentinelFor(t, target);
		if (carrier == CMsgPack) {
			if (et.second.size() > 31) continue;
			const std::string doc = std::string("\x82\xa1") + std::to_string(sent) + "\x09" + static_cast<char>(0xa0 | et.second.size()) + et.second + "\x07";
			for (int rd = 0; rd < 2; ++rd) mapJudge(col, carrier, "a0:" + et.first, t, target, doc, sent, rd == 1);
		} else if (carrier == CJson) mapJudge(col, carrier, et.first, t, target, "{\"" + std::to_string(sent) + "\":9,\"" + et.second + "\":7}", sent, false);
		else mapJudge(col, carrier, et.first, t, target, std::to_string(sent) + "," + et.second + "\r\n9,7\r\n", sent, false);
	}
}
static std::vector<Item> keyItems() {
	std::vector<Item> r;
	auto src = [](const std::string& cls, const Val& v) { Source s; s.cls = cls; s.v = v; return s; };
	for (auto& lv : gA.keyInts) r.push_back({src(lv.cls, lv.v), 0});
	for (long x = -128; x <= 255; ++x) r.push_back({src("8bit_exhaustive", Val::integer(x)), 0});
	for (auto& lv : gA.f32) r.push_back({src(lv.cls, lv.v), 1});
	for (auto& lv : gA.f64) r.push_back({src(lv.cls, lv.v), 1});
	r.push_back({src("bool:false", Val::boolean(false)), 2}); r.push_back({src("bool:true", Val::boolean(true)), 2});
	for (const char* t : {"abc", "+5", "-", "x1"}) r.push_back({src(std::string("text:") + t, Val::str(t)), 3});
	return r;
}
static void scenMapKeys(bsx::Ctx& c) {
	static const int carriers[] = {CMsgPack, CJson, CCsv};
	const int carrier = carriers[c.choose(3, "carrier")];
	const int target = c.choose(NT, "key type");
	static std::vector<Item> I = keyItems();
	const int NB = 32, per = static_cast<int>((I.size() + NB - 1) / NB);
	const int blk = c.choose(NB, "value block");
	const int idx = blk * per + c.choose(per, "value");
	if (idx >= static_cast<int>(I.size())) { c.outcome("n/a"); return; }
	const Item& it = I[static_cast<size_t>(idx)];
	Collector col(c);
	mapCase(col, carrier, target, it);
	col.flush();
}

// ---- driver -----------------------------------------------------------------------------------------------------
static void body(bsx::Ctx& c) {
	gThorough = c.tier == "thorough";
	static bool built = false; static bool builtRich = false;
	if (!built || builtRich != gThorough) { gA.build(gThorough); built = true; builtRich = gThorough; }
	const int scen = c.choose(11, "scenario");
	switch (scen) {
	case 0: scenDirect(c, false); break;
	case 1: scenDirect(c, true); break;
	case 2: scenCarrierLattice(c, CMsgPack); break;
	case 3: scenCarrierLattice(c, CJson); break;
	case 4: scenCarrierLattice(c, CXml); break;
	case 5: scenCarrierLattice(c, CCsv); break;
	case 6: scenCarrierSweep(c, CMsgPack); break;
	case 7: scenCarrierSweep(c, CJson); break;
	case 8: scenCarrierSweep(c, CXml); break;
	case 9: scenCarrierSweep(c, CCsv); break;
	default: scenMapKeys(c); break;
	}
}

int main(int argc, char** argv) {
	bsx::Config cfg; cfg.part_depth = 4; cfg.max_dev = 0; cfg.hang_s = 10;
	bsx::Engine e("C04", body, cfg);
	return e.main(argc, argv);
}
