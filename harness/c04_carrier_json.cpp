// C04 — JSON carriers (typed targets at root / array element / object member, map key position).
#include "harness/c04_common.hpp"
#include "bitserializer/rapidjson_archive.h"
#include "bitserializer/types/std/map.h"

namespace c04 {
using JS = BS::Json::RapidJson::JsonArchive;

Loaded loadJson(const std::string& text, const Req& q) { return loadAt<JS>(text, q); }

MapLoaded loadMapJson(const std::string& text, const Req& q) {
	return withType(q.target, [&](auto tag) {
		using X = typename decltype(tag)::type;
		std::map<X, int32_t> m; MapLoaded r;
		auto o = lib::opts(q.ovT, q.mmT);
		r.out = lib::guard([&] { BS::LoadObject<JS>(m, text, o); });
		for (auto& kv : m) r.entries.emplace_back(toVal(kv.first), kv.second);
		return r;
	});
}
} // namespace c04
