// C12 — ill-formed UTF input is reported or replaced per policy, never propagated.
// E1: every UTF-8 byte string of length <= 3 (thorough; quick: <= 2 and length 3 over the byte-class
// alphabet), length 4 over the 31-symbol byte-class alphabet, the historical 5/6-byte forms, UTF-16 unit
// strings of length <= 4 and UTF-32 unit strings of length <= 3 over boundary alphabets; each bare and
// embedded between valid characters of 1/2/3/4 UTF-8 units; x every entry point that converts to an
// encoding form of a different width (Utf8/Utf16/Utf16Le/Utf16Be/Utf32/Utf32Le/Utf32Be ::Decode/::Encode,
// both Transcode overloads, Convert::To) x {Skip default mark, Skip custom mark, Skip empty mark, ThrowError}.
// Oracle: ref/ref_utf.hpp — independent validator on the output and the segmentation-agnostic matcher
// (any segmentation between Unicode's maximal subparts and "a lead unit claims its announced length").
// The input lives at the very end of a heap block so that ASan sees any read past its end.
#include "engine/bsx.hpp"
#include "ref/ref_utf.hpp"
#include "bitserializer/convert.h"
#include <stdexcept>
#include <unordered_map>
#include <unordered_set>
static_assert(sizeof(wchar_t) == 4, "the wstring variant is registered as a 32-bit target");

namespace U = BitSerializer::Convert::Utf;
namespace R = ref::utf;
using R::Enc;

#if defined(__BYTE_ORDER__) && __BYTE_ORDER__ == __ORDER_BIG_ENDIAN__
static constexpr Enc N16 = R::U16BE, N32 = R::U32BE;
#else
static constexpr Enc N16 = R::U16LE, N32 = R::U32LE;
#endif

// ------------------------------------------------------------------------------------------ plumbing
static void putUnit(unsigned char* p, uint32_t v, Enc e) {
	int w = R::width(e);
	if (w == 1) { p[0] = static_cast<unsigned char>(v); return; }
	if (w == 2) { if (R::bigEndian(e)) { p[0] = static_cast<unsigned char>(v >> 8); p[1] = static_cast<unsigned char>(v); } else { p[0] = static_cast<unsigned char>(v); p[1] = static_cast<unsigned char>(v >> 8); } return; }
	for (int k = 0; k < 4; ++k) p[R::bigEndian(e) ? 3 - k : k] = static_cast<unsigned char>(v >> (8 * k));
}
static uint32_t getUnit(const unsigned char* p, Enc e) {
	int w = R::width(e);
	if (w == 1) return p[0];
	if (w == 2) return R::bigEndian(e) ? (uint32_t(p[0]) << 8 | p[1]) : (uint32_t(p[1]) << 8 | p[0]);
	uint32_t v = 0; for (int k = 0; k < 4; ++k) v |= uint32_t(p[R::bigEndian(e) ? 3 - k : k]) << (8 * k); return v;
}

// input buffer whose end coincides with the end of a heap allocation
template <class Ch> struct Tail {
	static constexpr size_t CAP = 32;
	Ch* base = static_cast<Ch*>(malloc(CAP * sizeof(Ch)));
	const Ch* end() const { return base + CAP; }
	const Ch* put(const uint32_t* u, size_t n, Enc e) {
		Ch* b = base + (CAP - n);
		for (size_t i = 0; i < n; ++i) putUnit(reinterpret_cast<unsigned char*>(b + i), u[i], e);
		return b;
	}
};

enum Pol { SkipDefault = 0, SkipCustom, SkipEmpty, Throw, POLS };
static const char* polName[] = {"skip_default", "skip_custom", "skip_empty", "throw"};
// error marks as logical units of the target form, indexed [policy][target width index]
struct Mark { uint32_t u[4]; size_t n; };
static Mark markFor(int pol, int dw) {
	Mark m{{0, 0, 0, 0}, 0};
	if (pol == 0) m.n = static_cast<size_t>(R::encodeScalar(0x2610, dw, m.u));   // documented default: U+2610 BALLOT BOX
	else if (pol == 1) { m.u[0] = 0x3C; m.u[1] = 0x45; m.u[2] = 0x3E; m.n = 3; }  // "<E>"
	return m;
}
template <class Ch> static const Ch* customMark() { static const Ch m[] = {Ch('<'), Ch('E'), Ch('>'), Ch(0)}; return m; }
template <class Ch> static const Ch* emptyMark() { static const Ch m[] = {Ch(0)}; return m; }

template <class OutCh, class F> static auto withPolicy(int pol, F&& f) {
	switch (pol) {
	case SkipDefault: return f(U::UtfEncodingErrorPolicy::Skip);                          // default mark = default argument
	case SkipCustom: return f(U::UtfEncodingErrorPolicy::Skip, customMark<OutCh>());
	case SkipEmpty: return f(U::UtfEncodingErrorPolicy::Skip, emptyMark<OutCh>());
	default: return f(U::UtfEncodingErrorPolicy::ThrowError);
	}
}

struct Res {
	int rc = 0;                 // 0 Success, 1 InvalidSequence, 2 UnexpectedEnd
	bool hasIter = true; size_t it = 0, count = 0;
	uint32_t out[96]; size_t outLen = 0; bool outOverflow = false, prefixOk = true;
	std::string exc;            // exception type if the call threw
	void reset() { rc = 0; hasIter = true; it = count = 0; outLen = 0; outOverflow = false; prefixOk = true; if (!exc.empty()) exc.clear(); }
};
static const size_t kPrefill = 2;
static const uint32_t kPrefillUnits[kPrefill] = {0x70, 0xE9};   // "p", U+00E9 (only used for 16/32-bit outputs as is; UTF-8: 'p','q')

template <class OutCh> static void prefillOut(std::basic_string<OutCh>& out, Enc de) {
	for (size_t i = 0; i < kPrefill; ++i) { OutCh ch; uint32_t v = sizeof(OutCh) == 1 ? 0x70 + i : kPrefillUnits[i]; putUnit(reinterpret_cast<unsigned char*>(&ch), v, de); out.push_back(ch); }
}
template <class OutCh> static void readOut(const std::basic_string<OutCh>& out, Enc de, bool prefill, Res& r) {
	size_t pre = prefill ? kPrefill : 0;
	if (out.size() < pre) { r.prefixOk = false; pre = out.size(); }
	for (size_t i = 0; i < pre; ++i) { uint32_t v = sizeof(OutCh) == 1 ? 0x70 + i : kPrefillUnits[i]; if (getUnit(reinterpret_cast<const unsigned char*>(&out[i]), de) != v) r.prefixOk = false; }
	r.outLen = 0;
	for (size_t i = pre; i < out.size(); ++i) { if (r.outLen >= 96) { r.outOverflow = true; break; } r.out[r.outLen++] = getUnit(reinterpret_cast<const unsigned char*>(&out[i]), de); }
}

// one call of a converter entry point: f(begin, end, out, policy[, mark]) -> UtfEncodingResult<const InCh*>
template <class InCh, class OutCh, class F>
static void runCall(const uint32_t* in, size_t n, Enc se, Enc de, int pol, bool prefill, Res& r, F f) {
	static Tail<InCh> buf;
	static std::basic_string<OutCh> out;
	const InCh* b = buf.put(in, n, se); const InCh* e = buf.end();
	out.clear(); if (prefill) prefillOut(out, de);
	try {
		auto res = withPolicy<OutCh>(pol, [&](auto... a) { return f(b, e, out, a...); });
		r.rc = static_cast<int>(res.ErrorCode); r.it = static_cast<size_t>(res.Iterator - b); r.count = res.InvalidSequencesCount;
	}
	catch (const bsx::SkipSubtree&) { throw; }
	catch (const std::exception& ex) { r.exc = bsx::demangle(typeid(ex).name()); }
	catch (...) { r.exc = "nonstd"; }
	readOut(out, de, prefill, r);
}
// Convert::To<basic_string<OutCh>>(basic_string<InCh>): throws std::invalid_argument instead of returning a result
template <class InCh, class OutCh>
static void runConvertTo(const uint32_t* in, size_t n, int, bool, Res& r) {
	Enc se = sizeof(InCh) == 1 ? R::U8 : sizeof(InCh) == 2 ? N16 : N32, de = sizeof(OutCh) == 1 ? R::U8 : sizeof(OutCh) == 2 ? N16 : N32;
	std::basic_string<InCh> src(n, InCh());
	for (size_t i = 0; i < n; ++i) putUnit(reinterpret_cast<unsigned char*>(&src[i]), in[i], se);
	r.hasIter = false;
	try { auto out = BitSerializer::Convert::To<std::basic_string<OutCh>>(src); r.rc = 0; readOut(out, de, false, r); }
	catch (const std::invalid_argument&) { r.rc = 1; }
	catch (const bsx::SkipSubtree&) { throw; }
	catch (const std::exception& ex) { r.exc = bsx::demangle(typeid(ex).name()); }
	catch (...) { r.exc = "nonstd"; }
}

using Fn = void (*)(const uint32_t*, size_t, int, bool, Res&);
struct Variant { const char* api; Enc src, dst; Fn fn; bool core; bool throwOnly; };

#define VAR(ID, INCH, OUTCH, SRC, DST, EXPR) \
	static void ID(const uint32_t* in, size_t n, int pol, bool prefill, Res& r) { \
		runCall<INCH, OUTCH>(in, n, SRC, DST, pol, prefill, r, [](const INCH* b, const INCH* e, std::basic_string<OUTCH>& out, auto... a) { return EXPR; }); }
#define SV(INCH) std::basic_string_view<INCH>(b, static_cast<size_t>(e - b))

// UTF-8 -> UTF-16
VAR(v8_16_dec, char, char16_t, R::U8, N16, U::Utf8::Decode(b, e, out, a...))
VAR(v8_16_enc, char, char16_t, R::U8, N16, U::Utf16::Encode(b, e, out, a...))
VAR(v8_16_le, char, char16_t, R::U8, R::U16LE, U::Utf16Le::Encode(b, e, out, a...))
VAR(v8_16_be, char, char16_t, R::U8, R::U16BE, U::Utf16Be::Encode(b, e, out, a...))
VAR(v8_16_tr, char, char16_t, R::U8, N16, U::Transcode(b, e, out, a...))
VAR(v8_16_sv, char, char16_t, R::U8, N16, U::Transcode(SV(char), out, a...))
// UTF-8 -> UTF-32
VAR(v8_32_dec, char, char32_t, R::U8, N32, U::Utf8::Decode(b, e, out, a...))
VAR(v8_32_enc, char, char32_t, R::U8, N32, U::Utf32::Encode(b, e, out, a...))
VAR(v8_32_le, char, char32_t, R::U8, R::U32LE, U::Utf32Le::Encode(b, e, out, a...))
VAR(v8_32_be, char, char32_t, R::U8, R::U32BE, U::Utf32Be::Encode(b, e, out, a...))
VAR(v8_32_tr, char, char32_t, R::U8, N32, U::Transcode(b, e, out, a...))
VAR(v8_32_sv, char, char32_t, R::U8, N32, U::Transcode(SV(char), out, a...))
VAR(v8_w_sv, char, wchar_t, R::U8, (sizeof(wchar_t) == 2 ? N16 : N32), U::Transcode(SV(char), out, a...))
// UTF-16 -> UTF-8
VAR(v16_8_enc, char16_t, char, N16, R::U8, U::Utf8::Encode(b, e, out, a...))
VAR(v16_8_dec, char16_t, char, N16, R::U8, U::Utf16::Decode(b, e, out, a...))
VAR(v16_8_le, char16_t, char, R::U16LE, R::U8, U::Utf16Le::Decode(b, e, out, a...))
VAR(v16_8_be, char16_t, char, R::U16BE, R::U8, U::Utf16Be::Decode(b, e, out, a...))
VAR(v16_8_tr, char16_t, char, N16, R::U8, U::Transcode(b, e, out, a...))
VAR(v16_8_sv, char16_t, char, N16, R::U8, U::Transcode(SV(char16_t), out, a...))
// UTF-16 -> UTF-32
VAR(v16_32_dec, char16_t, char32_t, N16, N32, U::Utf16::Decode(b, e, out, a...))
VAR(v16_32_dle, char16_t, char32_t, R::U16LE, N32, U::Utf16Le::Decode(b, e, out, a...))
VAR(v16_32_dbe, char16_t, char32_t, R::U16BE, N32, U::Utf16Be::Decode(b, e, out, a...))
VAR(v16_32_enc, char16_t, char32_t, N16, N32, U::Utf32::Encode(b, e, out, a...))
VAR(v16_32_ele, char16_t, char32_t, N16, R::U32LE, U::Utf32Le::Encode(b, e, out, a...))
VAR(v16_32_ebe, char16_t, char32_t, N16, R::U32BE, U::Utf32Be::Encode(b, e, out, a...))
VAR(v16_32_tr, char16_t, char32_t, N16, N32, U::Transcode(b, e, out, a...))
VAR(v16_32_sv, char16_t, char32_t, N16, N32, U::Transcode(SV(char16_t), out, a...))
// UTF-32 -> UTF-8
VAR(v32_8_enc, char32_t, char, N32, R::U8, U::Utf8::Encode(b, e, out, a...))
VAR(v32_8_dec, char32_t, char, N32, R::U8, U::Utf32::Decode(b, e, out, a...))
VAR(v32_8_le, char32_t, char, R::U32LE, R::U8, U::Utf32Le::Decode(b, e, out, a...))
VAR(v32_8_be, char32_t, char, R::U32BE, R::U8, U::Utf32Be::Decode(b, e, out, a...))
VAR(v32_8_tr, char32_t, char, N32, R::U8, U::Transcode(b, e, out, a...))
VAR(v32_8_sv, char32_t, char, N32, R::U8, U::Transcode(SV(char32_t), out, a...))
// UTF-32 -> UTF-16
VAR(v32_16_enc, char32_t, char16_t, N32, N16, U::Utf16::Encode(b, e, out, a...))
VAR(v32_16_ele, char32_t, char16_t, N32, R::U16LE, U::Utf16Le::Encode(b, e, out, a...))
VAR(v32_16_ebe, char32_t, char16_t, N32, R::U16BE, U::Utf16Be::Encode(b, e, out, a...))
VAR(v32_16_dec, char32_t, char16_t, N32, N16, U::Utf32::Decode(b, e, out, a...))
VAR(v32_16_dle, char32_t, char16_t, R::U32LE, N16, U::Utf32Le::Decode(b, e, out, a...))
VAR(v32_16_dbe, char32_t, char16_t, R::U32BE, N16, U::Utf32Be::Decode(b, e, out, a...))
VAR(v32_16_tr, char32_t, char16_t, N32, N16, U::Transcode(b, e, out, a...))
VAR(v32_16_sv, char32_t, char16_t, N32, N16, U::Transcode(SV(char32_t), out, a...))

// variants[srcWidthIndex][dstWidthIndex]; width index 0/1/2 = 1/2/4 bytes
static const std::vector<Variant>& variants(int sw, int dw) {
	static const std::vector<Variant> v8_16 = {{"Utf8::Decode", R::U8, N16, v8_16_dec, false, false}, {"Utf16::Encode", R::U8, N16, v8_16_enc, false, false}, {"Utf16Le::Encode", R::U8, R::U16LE, v8_16_le, true, false},
		{"Utf16Be::Encode", R::U8, R::U16BE, v8_16_be, true, false}, {"Transcode(it)", R::U8, N16, v8_16_tr, false, false}, {"Transcode(sv)", R::U8, N16, v8_16_sv, false, false},
		{"Convert::To", R::U8, N16, runConvertTo<char, char16_t>, false, true}};
	static const std::vector<Variant> v8_32 = {{"Utf8::Decode", R::U8, N32, v8_32_dec, false, false}, {"Utf32::Encode", R::U8, N32, v8_32_enc, false, false}, {"Utf32Le::Encode", R::U8, R::U32LE, v8_32_le, true, false},
		{"Utf32Be::Encode", R::U8, R::U32BE, v8_32_be, true, false}, {"Transcode(it)", R::U8, N32, v8_32_tr, false, false}, {"Transcode(sv)", R::U8, N32, v8_32_sv, false, false},
		{"Transcode(sv)->wstring", R::U8, (sizeof(wchar_t) == 2 ? N16 : N32), v8_w_sv, false, false}, {"Convert::To", R::U8, N32, runConvertTo<char, char32_t>, false, true}};
	static const std::vector<Variant> v16_8 = {{"Utf8::Encode", N16, R::U8, v16_8_enc, false, false}, {"Utf16::Decode", N16, R::U8, v16_8_dec, false, false}, {"Utf16Le::Decode", R::U16LE, R::U8, v16_8_le, true, false},
		{"Utf16Be::Decode", R::U16BE, R::U8, v16_8_be, true, false}, {"Transcode(it)", N16, R::U8, v16_8_tr, false, false}, {"Transcode(sv)", N16, R::U8, v16_8_sv, false, false},
		{"Convert::To", N16, R::U8, runConvertTo<char16_t, char>, false, true}};
	static const std::vector<Variant> v16_32 = {{"Utf16::Decode", N16, N32, v16_32_dec, false, false}, {"Utf16Le::Decode", R::U16LE, N32, v16_32_dle, true, false}, {"Utf16Be::Decode", R::U16BE, N32, v16_32_dbe, true, false},
		{"Utf32::Encode", N16, N32, v16_32_enc, false, false}, {"Utf32Le::Encode", N16, R::U32LE, v16_32_ele, true, false}, {"Utf32Be::Encode", N16, R::U32BE, v16_32_ebe, true, false},
		{"Transcode(it)", N16, N32, v16_32_tr, false, false}, {"Transcode(sv)", N16, N32, v16_32_sv, false, false}, {"Convert::To", N16, N32, runConvertTo<char16_t, char32_t>, false, true}};
	static const std::vector<Variant> v32_8 = {{"Utf8::Encode", N32, R::U8, v32_8_enc, false, false}, {"Utf32::Decode", N32, R::U8, v32_8_dec, false, false}, {"Utf32Le::Decode", R::U32LE, R::U8, v32_8_le, true, false},
		{"Utf32Be::Decode", R::U32BE, R::U8, v32_8_be, true, false}, {"Transcode(it)", N32, R::U8, v32_8_tr, false, false}, {"Transcode(sv)", N32, R::U8, v32_8_sv, false, false},
		{"Convert::To", N32, R::U8, runConvertTo<char32_t, char>, false, true}};
	static const std::vector<Variant> v32_16 = {{"Utf16::Encode", N32, N16, v32_16_enc, false, false}, {"Utf16Le::Encode", N32, R::U16LE, v32_16_ele, true, false}, {"Utf16Be::Encode", N32, R::U16BE, v32_16_ebe, true, false},
		{"Utf32::Decode", N32, N16, v32_16_dec, false, false}, {"Utf32Le::Decode", R::U32LE, N16, v32_16_dle, true, false}, {"Utf32Be::Decode", R::U32BE, N16, v32_16_dbe, true, false},
		{"Transcode(it)", N32, N16, v32_16_tr, false, false}, {"Transcode(sv)", N32, N16, v32_16_sv, false, false}, {"Convert::To", N32, N16, runConvertTo<char32_t, char16_t>, false, true}};
	static const std::vector<Variant> none;
	if (sw == 1) return dw == 2 ? v8_16 : v8_32;
	if (sw == 2) return dw == 1 ? v16_8 : v16_32;
	if (sw == 4) return dw == 1 ? v32_8 : v32_16;
	return none;
}

// ------------------------------------------------------------------------------------------ the oracle
static std::string unitsStr(const uint32_t* u, size_t n, int w) {
	std::string s; for (size_t i = 0; i < n; ++i) s += bsx::fmt(w == 1 ? "%s%02X" : w == 2 ? "%s%04X" : "%s%X", i ? " " : "", u[i]); return s.empty() ? "(empty)" : s;
}
static const char* rcName(int rc) { return rc == 0 ? "Success" : rc == 1 ? "InvalidSequence" : rc == 2 ? "UnexpectedEnd" : "?"; }

struct Verdict { std::string fail, cls, why; const char* outcome = "ok"; };   // fail empty = property holds for this call

static void judgeCall(const R::Nfa& nfa, int dw, int pol, const Variant& v, const Res& r, Verdict& vd, bool diagnose = true);

// Naming the cause of a Skip-policy failure: the first ill-formed position whose announced sequence, converted on its
// own by the same entry point under the same policy, already violates the property. Returns nullptr if every
// ill-formed sequence of the input is handled correctly in isolation (the failure needs the context).
static const char* isolate(const R::Nfa& nfa, int dw, int pol, const Variant& v) {
	for (size_t p = 0; p < nfa.n; ++p) {
		if (nfa.vlen[p]) continue;
		size_t len = std::min<size_t>(static_cast<size_t>(nfa.decl[p]), nfa.n - p);
		Res r; v.fn(nfa.in + p, len, pol, false, r);
		R::Nfa sub(nfa.in + p, len, nfa.sw); Verdict vd;
		judgeCall(sub, dw, pol, v, r, vd, false);
		// (a count lost at a truncated tail is a separate defect class with its own signature, not a cause)
		if (vd.fail == "underivable" || vd.fail == "not_wellformed" || vd.fail == "count_mismatch") return sub.classAt(0);
	}
	return nullptr;
}

static void judgeCall(const R::Nfa& nfa, int dw, int pol, const Variant& v, const Res& r, Verdict& vd, bool diagnose) {
	const size_t n = nfa.n;
	auto fail = [&](const char* kind, const std::string& cls, const std::string& why) { vd.fail = kind; vd.cls = cls; vd.why = why; };
	if (!r.exc.empty()) { vd.outcome = "exception"; return fail(("exception:" + r.exc).c_str(), nfa.classAt(nfa.firstIll), "the call threw " + r.exc); }
	if (!r.prefixOk) return fail("prefix_damaged", nfa.classAt(nfa.firstIll), "text already present in the output string was changed");
	if (r.outOverflow) return fail("runaway_output", nfa.classAt(nfa.firstIll), "more than 96 output units");
	if (pol == Throw) {
		// expected output: the reference encoding of the well-formed prefix
		uint32_t exp[96]; size_t el = 0;
		for (size_t i = 0; i < nfa.firstIll;) { el += static_cast<size_t>(R::encodeScalar(nfa.cp[i], dw, exp + el)); i += static_cast<size_t>(nfa.vlen[i]); }
		const bool outOk = el == r.outLen && !memcmp(exp, r.out, el * sizeof(uint32_t));
		if (nfa.allValid()) {
			vd.outcome = "throw:valid_input";
			if (r.rc != 0) return fail("rejected_valid", "valid_text", std::string("well-formed input rejected with ") + rcName(r.rc));
			if (!outOk) return fail("wrong_output", "valid_text", "well-formed input converted to different text");
			if (r.hasIter && (r.it != n || r.count != 0)) return fail("bad_result_fields", "valid_text", "Iterator/InvalidSequencesCount wrong after success");
			return;
		}
		const std::string cls = nfa.classAt(nfa.firstIll);
		// the first ill-formed sequence must be the reported one: success, or a failure reported further on, means it was passed
		if (r.rc == 0) { vd.outcome = "throw:accepted"; return fail("illformed_not_reported", cls, "ill-formed input accepted under ThrowError"); }
		if (v.throwOnly) { vd.outcome = "throw:invalid_argument"; return; }   // Convert::To: nothing else observable
		if (r.it > nfa.firstIll) { vd.outcome = "throw:passed_failed_later"; return fail("illformed_not_reported", cls, bsx::fmt("fails only at unit %zu (%s); the first ill-formed sequence starts at unit %zu", r.it, rcName(r.rc), nfa.firstIll)); }
		if (r.it < nfa.firstIll) { vd.outcome = "throw:failed_too_early"; return fail("failed_too_early", cls, bsx::fmt("fails at unit %zu, the first ill-formed sequence starts at unit %zu", r.it, nfa.firstIll)); }
		// UnexpectedEnd is legitimate only where the first ill-formed sequence is cut off by the end of input
		if (r.rc == 2 && !nfa.incompleteAt(nfa.firstIll)) { vd.outcome = "throw:unexpected_end_elsewhere"; return fail("unexpected_end_misplaced", cls, "UnexpectedEnd although the first ill-formed sequence is not a truncated tail"); }
		if (!outOk) { vd.outcome = "throw:wrong_prefix"; return fail("wrong_output_prefix", cls, "output is not the conversion of the well-formed prefix"); }
		vd.outcome = r.rc == 2 ? "throw:unexpected_end_at_tail" : "throw:invalid_at_first";
		return;
	}
	// Skip policies
	const Mark mk = markFor(pol, dw); const uint32_t* mark = mk.u; const size_t ml = mk.n;
	if (r.rc == 1) { vd.outcome = "skip:failed"; return fail("skip_failed", nfa.classAt(nfa.firstIll), "InvalidSequence returned under the Skip policy"); }
	size_t stop = n;
	if (r.rc == 0) { if (r.it != n) { vd.outcome = "skip:bad_iterator"; return fail("bad_iterator", nfa.classAt(nfa.firstIll), bsx::fmt("Success but Iterator at unit %zu of %zu", r.it, n)); } }
	else stop = r.it;
	if (stop > n) return fail("iterator_out_of_range", nfa.classAt(nfa.firstIll), "Iterator beyond the end of input");
	if (nfa.match(r.out, r.outLen, dw, mark, ml, stop, r.count)) {   // derivable => well-formed (the matcher emits well-formed text only)
		vd.outcome = r.rc == 2 ? "skip:unexpected_end_at_tail" : nfa.allValid() ? "skip:valid_input" : "skip:replaced";
		return;
	}
	const bool wf = R::decode(r.out, r.outLen, dw);
	const char* kind; const char* why;
	if (r.rc == 2 && !nfa.incompleteAt(stop)) {
		vd.outcome = "skip:unexpected_end_elsewhere"; kind = "unexpected_end_misplaced"; why = "UnexpectedEnd with the Iterator at a unit that is not a truncated tail";
	} else if (nfa.match(r.out, r.outLen, dw, mark, ml, stop, SIZE_MAX)) {
		vd.outcome = "skip:count_mismatch";
		if (r.rc == 2) return fail("count_mismatch_at_unexpected_end", nfa.classAt(stop), bsx::fmt("InvalidSequencesCount=%zu is not the number of replacements made before the truncated tail", r.count));
		kind = "count_mismatch"; why = "InvalidSequencesCount is not the number of replacements in any derivation of this output";
	} else {
		vd.outcome = wf ? "skip:underivable" : "skip:not_wellformed";
		kind = wf ? "underivable" : "not_wellformed";
		why = wf ? "output is not (well-formed text preserved + one mark per ill-formed sequence)" : "output is not well-formed in the target encoding";
	}
	if (!diagnose) return fail(kind, "", why);
	std::string cls;
	if (const char* iso = isolate(nfa, dw, pol, v)) cls = iso;
	else { size_t cp = nfa.culprit(r.out, r.outLen, dw, mark, ml, stop); cls = std::string("in_context_only:") + nfa.classAt(cp < n ? cp : nfa.firstIll); }
	fail(kind, cls, why);
}

// per-execution accumulators: an execution covers up to 65536 inputs, so outcome classes, shapes and violations are
// de-duplicated here instead of being handed to the engine once per call
struct Acc {
	std::vector<const char*> outcomes; std::unordered_set<uint64_t> shapes; std::unordered_map<std::string, uint32_t> sigs;
	void reset() { outcomes.clear(); shapes.clear(); sigs.clear(); }
	void outcome(const char* o) { for (const char* x : outcomes) if (x == o || !strcmp(x, o)) return; outcomes.push_back(o); }
	// at most kCap records per signature and execution reach the engine (the first ones with full detail)
	static constexpr uint32_t kCap = 16;
	template <class D> void violation(bsx::Ctx& c, const std::string& sig, D&& detail) { uint32_t& n = sigs[sig]; if (++n <= kCap) c.violation(sig, n <= 3 ? detail() : std::string()); }
	void flush(bsx::Ctx& c) { for (const char* o : outcomes) c.outcome(o); for (uint64_t h : shapes) c.nontrivial(h); }
};
static Acc gAcc;

struct Input { uint32_t u[R::Nfa::MAXN]; size_t n = 0; void add(const uint32_t* p, size_t k) { for (size_t i = 0; i < k; ++i) u[n++] = p[i]; } };

// contexts: 0 = bare; 1..16 = (prefix char, suffix char) over {U+007A, U+00E9, U+20AC, U+1F600} (1/2/3/4 UTF-8 units)
static const uint32_t kCtxChars[4] = {0x7A, 0xE9, 0x20AC, 0x1F600};
static const int kCtxCount = 17;
static void embed(int ctx, int sw, const uint32_t* core, size_t k, Input& in) {
	in.n = 0; uint32_t b[4];
	if (ctx > 0) in.add(b, static_cast<size_t>(R::encodeScalar(kCtxChars[(ctx - 1) / 4], sw, b)));
	in.add(core, k);
	if (ctx > 0) in.add(b, static_cast<size_t>(R::encodeScalar(kCtxChars[(ctx - 1) % 4], sw, b)));
}
static std::string ctxName(int ctx) { return ctx == 0 ? "bare" : bsx::fmt("U+%X _ U+%X", kCtxChars[(ctx - 1) / 4], kCtxChars[(ctx - 1) % 4]); }

// shape of an input = sequence of (valid length | ill-formed class) along the reference scan; used for distinct_nontrivial
static uint64_t shapeKey(const R::Nfa& nfa) {
	uint64_t h = bsx::fnv(&nfa.sw, sizeof nfa.sw);
	for (size_t i = 0; i < nfa.n;) {
		if (nfa.vlen[i]) { h = bsx::mix(h ^ static_cast<uint64_t>(nfa.vlen[i])); i += static_cast<size_t>(nfa.vlen[i]); }
		else { h = bsx::fnv(std::string(R::illClass(nfa.in, nfa.n, i, nfa.sw)), h); ++i; }
	}
	return h;
}

// judge one input under every variant (coreOnly: the two byte-order variants per target) and every policy
static uint64_t judgeInput(bsx::Ctx& c, int sw, const Input& in, int ctx, bool coreOnly) {
	R::Nfa nfa(in.u, in.n, sw);
	if (!nfa.allValid()) gAcc.shapes.insert(shapeKey(nfa));
	uint64_t calls = 0;
	const int widths[3] = {1, 2, 4};
	for (int dw : widths) {
		if (dw == sw) continue;
		const auto& vs = variants(sw, dw);
		struct Cell { Verdict vd; Res r; bool ran = false; };
		static Cell cells[12][POLS];
		for (size_t vi = 0; vi < vs.size(); ++vi) for (int pol = 0; pol < POLS; ++pol) { Cell& ce = cells[vi][pol]; ce.ran = false; if (!ce.vd.fail.empty()) { ce.vd.fail.clear(); ce.vd.cls.clear(); ce.vd.why.clear(); } ce.vd.outcome = "ok"; }
		auto detail = [&](size_t vi, int pol) {
			const Cell& ce = cells[vi][pol]; const Res& r = ce.r;
			return ce.vd.why + bsx::fmt(" | %s %s->%s policy=%s context=%s input=[%s] -> rc=%s it=%zu count=%zu output=[%s]", vs[vi].api, R::name(vs[vi].src), R::name(vs[vi].dst), polName[pol], ctxName(ctx).c_str(),
				unitsStr(in.u, in.n, sw).c_str(), r.exc.empty() ? rcName(r.rc) : r.exc.c_str(), r.it, r.count, unitsStr(r.out, r.outLen, dw).c_str());
		};
		bool anyFail = false;
		for (size_t vi = 0; vi < vs.size(); ++vi) {
			if (coreOnly && !vs[vi].core) continue;
			for (int pol = 0; pol < POLS; ++pol) {
				if (vs[vi].throwOnly && pol != Throw) continue;
				Cell& ce = cells[vi][static_cast<size_t>(pol)]; ce.ran = true;
				Res& r = ce.r; r.reset(); vs[vi].fn(in.u, in.n, pol, ctx != 0, r); ++calls;
				judgeCall(nfa, dw, pol, vs[vi], r, ce.vd);
				gAcc.outcome(ce.vd.outcome);
				if (!ce.vd.fail.empty()) anyFail = true;
			}
		}
		if (!anyFail) continue;
		// Collapse: one signature per (class, kind) without entry point and mark kind if every variant fails the same way
		// under all three Skip policies (resp. under ThrowError); failing that, one per exact policy if every variant fails
		// the same way under that policy; otherwise the entry point and the encoding schemes are named as well.
		const std::string base = std::string("C12/") + R::formName(sw) + "->" + R::formName(dw);
		auto keyOf = [&](size_t vi, int pol) { const Cell& ce = cells[vi][pol]; return ce.vd.fail.empty() ? std::string() : "class=" + ce.vd.cls + "/out=" + ce.vd.fail; };
		// does every variant that ran under policy `pol` fail with key k? (Convert::To only observes success/failure)
		auto allUnder = [&](int pol, const std::string& k, size_t& fvi) {
			bool any = false;
			for (size_t vi = 0; vi < vs.size(); ++vi) {
				const Cell& ce = cells[vi][pol]; if (!ce.ran) continue;
				if (vs[vi].throwOnly && ce.vd.fail.empty()) continue;   // Convert::To cannot observe where the failure was reported
				if (keyOf(vi, pol) != k) return false;
				if (!any) { any = true; fvi = vi; }
			}
			return any;
		};
		std::vector<std::string> done;   // "<pol>|<key>" already reported
		auto isDone = [&](int pol, const std::string& k) { return std::find(done.begin(), done.end(), std::to_string(pol) + "|" + k) != done.end(); };
		for (size_t vi = 0; vi < vs.size(); ++vi) for (int pol = 0; pol < POLS; ++pol) {
			const Cell& ce = cells[vi][pol]; if (!ce.ran || ce.vd.fail.empty()) continue;
			const std::string k = keyOf(vi, pol);
			if (isDone(pol, k)) continue;
			size_t fvi = vi, f2 = 0;
			if (pol != Throw && allUnder(SkipDefault, k, fvi) && allUnder(SkipCustom, k, f2) && allUnder(SkipEmpty, k, f2)) {
				for (int q = 0; q < Throw; ++q) done.push_back(std::to_string(q) + "|" + k);
				gAcc.violation(c, base + "/policy=skip/" + k, [&] { return detail(fvi, SkipDefault); });
			} else if (allUnder(pol, k, fvi)) {
				done.push_back(std::to_string(pol) + "|" + k);
				gAcc.violation(c, base + "/policy=" + polName[pol] + "/" + k, [&] { return detail(fvi, pol); });
			} else {
				gAcc.violation(c, base + "/api=" + vs[vi].api + "/" + R::name(vs[vi].src) + "->" + R::name(vs[vi].dst) + "/policy=" + polName[pol] + "/" + k, [&] { return detail(vi, pol); });
			}
		}
	}
	return calls;
}

// ------------------------------------------------------------------------------------------ alphabets
static const uint32_t kByteAlpha[] = {0x00, 0x41, 0x7F, 0x80, 0x8F, 0x90, 0x9F, 0xA0, 0xBF, 0xC0, 0xC1, 0xC2, 0xDF, 0xE0, 0xE1, 0xEC, 0xED, 0xEE, 0xEF,
	0xF0, 0xF1, 0xF3, 0xF4, 0xF5, 0xF7, 0xF8, 0xFB, 0xFC, 0xFD, 0xFE, 0xFF};                                        // 31 symbols: every boundary of Table 3-7 and of the lead-byte bit patterns
static const uint32_t kLongLead[] = {0xF8, 0xFB, 0xFC, 0xFD};
static const uint32_t kLongTail[] = {0x41, 0x80, 0xBF, 0xE2, 0xFF};
static const uint32_t kU16Alpha[] = {0x0000, 0x0041, 0x007F, 0x0080, 0x07FF, 0x0800, 0xD7FF, 0xD800, 0xDBFF, 0xDC00, 0xDFFF, 0xE000, 0xFFFD, 0xFFFE, 0xFFFF};   // 15
static const uint32_t kU32Alpha[] = {0x0000, 0x0041, 0xD7FF, 0xD800, 0xDBFF, 0xDC00, 0xDFFF, 0xE000, 0xFFFF, 0x10000, 0x10FFFF, 0x110000, 0x7FFFFFFF, 0xFFFFFFFF};   // 14
template <class T, size_t N> static constexpr int count(const T (&)[N]) { return static_cast<int>(N); }

// all strings of exactly `len` symbols over alpha[0..na) whose first symbol is alpha[first] (first < 0: any)
template <class F> static void forStrings(const uint32_t* alpha, int na, int len, int first, F&& f) {
	uint32_t s[8]; int idx[8] = {0};
	if (len == 0) { f(s, 0); return; }
	if (first >= 0) idx[0] = first;
	for (;;) {
		for (int i = 0; i < len; ++i) s[i] = alpha[idx[i]];
		f(s, static_cast<size_t>(len));
		int k = len - 1;
		while (k >= 0) { if (first >= 0 && k == 0) { k = -1; break; } if (++idx[k] < na) break; idx[k] = 0; --k; }
		if (k < 0) break;
	}
}

enum Scen { S_Utf8Exhaustive = 0, S_Utf8Class, S_Utf8Long, S_Utf16Class, S_Utf32Class, SCENS };
static const char* scenName[] = {"utf8_exhaustive", "utf8_class_alphabet", "utf8_5_6_byte_forms", "utf16_class_alphabet", "utf32_class_alphabet"};

// contexts of the exhaustive length-3 sweep (thorough): bare, 2-unit _ 4-unit, 4-unit _ 1-unit, 3-unit _ 3-unit
static const int kExhCtx[] = {0, 1 + 1 * 4 + 3, 1 + 3 * 4 + 0, 1 + 2 * 4 + 2};

static void body(bsx::Ctx& c) {
	const bool thorough = c.tier == "thorough";
	const int scen = c.choose(SCENS, "scenario");
	uint64_t calls = 0; Input in; uint64_t k = 0; gAcc.reset();
	auto run = [&](int sw, int ctx, const uint32_t* core, size_t len, bool coreOnly) {
		embed(ctx, sw, core, len, in);
		calls += judgeInput(c, sw, in, ctx, coreOnly);
		if ((++k & 255) == 0) c.heartbeat();
	};
	if (scen == S_Utf8Exhaustive) {
		// every byte string of length len; the block is selected by the first byte
		const int maxLen = thorough ? 3 : 2;
		const int len = c.choose(maxLen + 1, "length");
		const int nctx = len == 3 ? count(kExhCtx) : kCtxCount;
		const int ci = c.choose(nctx, "context");
		const int ctx = len == 3 ? kExhCtx[ci] : ci;
		const int b0 = len >= 1 ? c.choose(256, "first byte") : 0;
		c.describe(std::string("C12/") + scenName[scen], bsx::fmt("all byte strings of length %d starting with %02X, context %s", len, b0, ctxName(ctx).c_str()));
		const bool coreOnly = len == 3;
		uint32_t s[3] = {static_cast<uint32_t>(b0), 0, 0};
		if (len <= 1) run(1, ctx, s, static_cast<size_t>(len), coreOnly);
		else if (len == 2) for (uint32_t b1 = 0; b1 < 256; ++b1) { s[1] = b1; run(1, ctx, s, 2, coreOnly); }
		else for (uint32_t b1 = 0; b1 < 256; ++b1) for (uint32_t b2 = 0; b2 < 256; ++b2) { s[1] = b1; s[2] = b2; run(1, ctx, s, 3, coreOnly); }
		if (len == 2 && b0 == 0xC0 && ctx == 0) c.sample("utf8 exhaustive: all 256 strings C0 xx, bare, 13+ entry points x 4 policies each");
	} else if (scen == S_Utf8Class) {
		// length 4 (quick: also 3) over the byte-class alphabet
		const int li = c.choose(thorough ? 1 : 2, "length");
		const int len = thorough ? 4 : (li == 0 ? 3 : 4);
		const bool reduced = !thorough && len == 4;              // quick, length 4: bare + two contexts, byte-order variants only
		const int ci = c.choose(reduced ? 3 : kCtxCount, "context");
		const int ctx = reduced ? kExhCtx[ci] : ci;
		const int f = c.choose(count(kByteAlpha), "first byte");
		c.describe(std::string("C12/") + scenName[scen], bsx::fmt("byte-class strings of length %d starting with %02X, context %s", len, kByteAlpha[f], ctxName(ctx).c_str()));
		forStrings(kByteAlpha, count(kByteAlpha), len, f, [&](const uint32_t* s, size_t n) { run(1, ctx, s, n, reduced); });
		if (f == 13 && ctx == 0) c.sample(bsx::fmt("utf8 class alphabet: all %d-byte strings E0 x x%s over 31 byte classes", len, len == 4 ? " x" : ""));
	} else if (scen == S_Utf8Long) {
		const int ctx = c.choose(kCtxCount, "context");
		const int lead = c.choose(count(kLongLead), "lead");
		const int tl = c.choose(thorough ? 7 : 6, "tail length");
		c.describe(std::string("C12/") + scenName[scen], bsx::fmt("lead %02X + %d bytes over {41,80,BF,E2,FF}, context %s", kLongLead[lead], tl, ctxName(ctx).c_str()));
		forStrings(kLongTail, count(kLongTail), tl, -1, [&](const uint32_t* t, size_t n) { uint32_t s[8]; s[0] = kLongLead[lead]; for (size_t i = 0; i < n; ++i) s[i + 1] = t[i]; run(1, ctx, s, n + 1, false); });
	} else if (scen == S_Utf16Class) {
		const int ctx = c.choose(kCtxCount, "context");
		const int len = c.choose(5, "length");
		const int f = len ? c.choose(count(kU16Alpha), "first unit") : 0;
		c.describe(std::string("C12/") + scenName[scen], bsx::fmt("UTF-16 unit strings of length %d starting with %04X, context %s", len, kU16Alpha[f], ctxName(ctx).c_str()));
		forStrings(kU16Alpha, count(kU16Alpha), len, len ? f : -1, [&](const uint32_t* s, size_t n) { run(2, ctx, s, n, false); });
		if (len == 2 && f == 7 && ctx == 0) c.sample("utf16 class alphabet: D800 followed by each of 15 boundary units, bare");
	} else {
		const int ctx = c.choose(kCtxCount, "context");
		const int len = c.choose(4, "length");
		const int f = len ? c.choose(count(kU32Alpha), "first unit") : 0;
		c.describe(std::string("C12/") + scenName[scen], bsx::fmt("UTF-32 unit strings of length %d starting with %X, context %s", len, kU32Alpha[f], ctxName(ctx).c_str()));
		forStrings(kU32Alpha, count(kU32Alpha), len, len ? f : -1, [&](const uint32_t* s, size_t n) { run(4, ctx, s, n, false); });
		if (len == 1 && f == 3 && ctx == 0) c.sample("utf32 class alphabet: the single unit D800, bare");
	}
	gAcc.flush(c);
	if (calls > 1) c.evals(calls - 1);
}

int main(int argc, char** argv) {
	std::string st = R::selfTest(false);
	if (!st.empty()) { fprintf(stderr, "ref_utf self-test failed: %s\n", st.c_str()); return 2; }
	bsx::Config cfg; cfg.part_depth = 4; cfg.max_dev = 0; cfg.hang_s = 15;
	bsx::Engine e("C12", body, cfg);
	return e.main(argc, argv);
}
