// C01 — save then load reproduces the value, in every archive and output configuration; load -> save -> load
// is a fixed point. Bounded exhaustive: (i) a static type catalogue (c01_groups.hpp: ~115 C++ types in 13 groups
// per nesting archive + CSV cells / row containers) x named value alphabets (c01_common.hpp) x placement
// {root, array element, object member} x ALL output configurations of the archive (memory / stream x 5 encodings
// x BOM x formatting, CSV separators); (ii) shaped value trees up to depth 3 / width 2 (c01_trees.cpp), also
// written by independent emitters (fixed point of foreign documents).
// Oracle: differential/invariant — SaveObject throws a std::exception, or LoadObject(SaveObject(v)) into a
// default-constructed target equals v (floats bit-wise, NaN == NaN); load -> save -> load yields the same value;
// memory output == stream output (UTF-8, no BOM) byte for byte.
#include "harness/c01_common.hpp"

#define C01_DECL(a) \
	std::vector<c01::Entry> c01_tab_##a##_g00(); std::vector<c01::Entry> c01_tab_##a##_g01(); std::vector<c01::Entry> c01_tab_##a##_g02(); std::vector<c01::Entry> c01_tab_##a##_g03(); \
	std::vector<c01::Entry> c01_tab_##a##_g04(); std::vector<c01::Entry> c01_tab_##a##_g05(); std::vector<c01::Entry> c01_tab_##a##_g06(); std::vector<c01::Entry> c01_tab_##a##_g07(); \
	std::vector<c01::Entry> c01_tab_##a##_g08(); std::vector<c01::Entry> c01_tab_##a##_g09(); std::vector<c01::Entry> c01_tab_##a##_g10(); std::vector<c01::Entry> c01_tab_##a##_g11(); \
	std::vector<c01::Entry> c01_tab_##a##_g12();
C01_DECL(msgpack) C01_DECL(json) C01_DECL(xml)
std::vector<c01::Entry> c01_tab_csv_g00(); std::vector<c01::Entry> c01_tab_csv_g01(); std::vector<c01::Entry> c01_tab_csv_g02();
void c01_trees(bsx::Ctx& c, int arch);      // c01_trees.cpp
int c01_tree_count();
void c01_long(bsx::Ctx& c, int arch, bool thorough);   // c01_long.cpp

using c01::Entry;
static std::vector<Entry> table(int arch) {
	std::vector<Entry> t;
	auto app = [&](std::vector<Entry> v) { for (auto& e : v) if (e.pos[0] || e.pos[1] || e.pos[2]) t.push_back(e); };
#define C01_ALL(a) app(c01_tab_##a##_g00()); app(c01_tab_##a##_g01()); app(c01_tab_##a##_g02()); app(c01_tab_##a##_g03()); app(c01_tab_##a##_g04()); app(c01_tab_##a##_g05()); app(c01_tab_##a##_g06()); \
	app(c01_tab_##a##_g07()); app(c01_tab_##a##_g08()); app(c01_tab_##a##_g09()); app(c01_tab_##a##_g10()); app(c01_tab_##a##_g11()); app(c01_tab_##a##_g12());
	if (arch == c01::MsgPack) { C01_ALL(msgpack) } else if (arch == c01::Json) { C01_ALL(json) } else if (arch == c01::Xml) { C01_ALL(xml) }
	else { app(c01_tab_csv_g00()); app(c01_tab_csv_g01()); app(c01_tab_csv_g02()); }
	return t;
}

static void body(bsx::Ctx& c) {
	static std::vector<Entry> T[4] = {table(0), table(1), table(2), table(3)};
	const int scen = c.choose(3, "scenario");   // 0 = typed catalogue, 1 = shaped trees, 2 = long documents (chunk boundary alignments)
	const int arch = c.choose(4, "archive");
	if (scen == 1) { c01_trees(c, arch); return; }
	if (scen == 2) { c01_long(c, arch, c01::thorough()); return; }
	const auto& tab = T[arch];
	const int ei = c.choose(static_cast<int>(tab.size()), "type");
	const Entry& e = tab[static_cast<size_t>(ei)];
	const int pos = c.choose(3, "placement");
	if (!e.pos[pos]) { c.outcome("n/a:placement"); return; }
	c01::Args a; a.arch = arch; a.pos = pos;
	a.val = c.choose(e.count(), "value");
	e.run(c, a);
}

int main(int argc, char** argv) {
	bsx::Config cfg; cfg.part_depth = 5; cfg.max_dev = 0; cfg.hang_s = 20;
	bsx::Engine e("C01", body, cfg);
	e.mTierSetup = [](const std::string& tier, bsx::Config&) { c01::thorough() = tier == "thorough"; };
	return e.main(argc, argv);
}
