// C13 — encoded text streams: encoding detection, BOM and chunked decoding are lossless.
// E2 (history search over the reader's window states), bounded exhaustive:
//   texts a^p . X . a^q, X = every sequence of length <= 2 (thorough 3) over the named symbols
//   {b1,b2,b3,b4,b4max,feff,nul}, p such that X starts at every byte offset boundary-8..boundary+8
//   (boundary = 1x and 2x ChunkSize), q in {0, 1, one chunk}; plus every text of 0..3 symbols;
//   x 5 encodings x BOM on/off x target char {char, char16_t, char32_t} x ChunkSize {32, 64, 256}
//   x every truncation point of the encoded bytes x both error policies x <= 1 short delivery.
// Entry points: CEncodedStreamReader (scenario 0), DetectEncoding string + stream overloads
// (scenario 1), CEncodedStreamWriter with every source width (scenario 2), and the CSV / JSON / XML
// stream loaders on a one-record document in every encoding (scenario 3).
// Oracle: ref/ref_utfstream.hpp (reference encoder / strict decoder written from the standard).
//
// Build notes: compiled with -fno-access-control (window members are read for the state report)
// and linked with -Wl,--wrap=memcpy: an overlapping memcpy (undefined behaviour) is turned into an
// observation (and executed as memmove) instead of a sanitizer abort, so that one defect does not
// hide everything behind it.
#include "engine/bsx.hpp"
#include "engine/env.hpp"
#include "ref/ref_utfstream.hpp"
#include "ref/ref_utf.hpp"
#include "bitserializer/conversion_detail/convert_utf.h"
#include "models/lib.hpp"
#include "bitserializer/csv_archive.h"
#include "bitserializer/rapidjson_archive.h"
#include "bitserializer/pugixml_archive.h"
#include "bitserializer/types/std/vector.h"
#include <map>
#include <new>
#include <sstream>

namespace U = BitSerializer::Convert::Utf;

// Millions of small allocations per second: a smaller quarantine keeps the sanitizer runtime from spending its time in munmap.
// (Options named in the ASAN_OPTIONS environment variable still take precedence.)
extern "C" const char* __asan_default_options() { return "quarantine_size_mb=16"; }

// ---- memcpy seam ------------------------------------------------------------------------
extern "C" void* __real_memcpy(void*, const void*, size_t);
static unsigned long gOverlap = 0;
extern "C" void* __wrap_memcpy(void* d, const void* s, size_t n) {
	uintptr_t a = reinterpret_cast<uintptr_t>(d), b = reinterpret_cast<uintptr_t>(s);
	if (n && a != b && a < b + n && b < a + n) { ++gOverlap; return memmove(d, s, n); }
	return __real_memcpy(d, s, n);
}

// ---- istream::read seam (scenario 3 only) -------------------------------------------------
// The CSV loader loops on ReadChunk itself, so the harness cannot bound the number of calls from outside. std::istream::read is
// wrapped at link time: 10000 consecutive reads on a stream that is already at end/failed mean the caller is spinning; the seam
// then throws LivelockDetected through the library, which turns the hang into an ordinary, deterministic outcome.
struct LivelockDetected {};
static bool gGuardReads = false; static unsigned long gDeadReads = 0;
extern "C" std::istream& __real__ZNSi4readEPcl(std::istream*, char*, std::streamsize);
extern "C" std::istream& __wrap__ZNSi4readEPcl(std::istream* self, char* p, std::streamsize n) {
	if (gGuardReads) { if (!self->good()) { if (++gDeadReads > 10000) { gDeadReads = 0; throw LivelockDetected{}; } } else gDeadReads = 0; }
	return __real__ZNSi4readEPcl(self, p, n);
}

// ---- alphabet ---------------------------------------------------------------------------
struct Sym { const char* name; char32_t cp; };
static const Sym gSyms[] = {
	{"b1", U'z'},          // 1 byte in UTF-8
	{"b2", 0x00E9},        // 2 bytes in UTF-8
	{"b3", 0x20AC},        // 3 bytes in UTF-8, one UTF-16 unit
	{"b4", 0x1F600},       // 4 bytes in UTF-8, surrogate pair D83D DE00
	{"b4max", 0x10FFFF},   // last code point: surrogate pair DBFF DFFF (boundary of the high surrogate range)
	{"feff", 0xFEFF},      // BOM character inside the text
	{"nul", 0x0000},
	{"a", U'a'},           // filler (only in the short texts it is a symbol of its own)
	{"lf", 0x000A},        // ASCII control characters and DEL: "begins with an ASCII character other than NUL" includes them, and
	{"c1f", 0x001F},       // the zero-byte pattern analysis of DetectEncoding looks at the bit patterns of the first units
	{"del", 0x007F},
};
constexpr int NS = 7;      // symbols of X
constexpr int NSA = 11;    // symbols of the short texts
static const int gChunks[] = {32, 64, 256};
static const char* gTargets[] = {"char", "char16", "char32"};

static std::vector<std::vector<int>> seqs(int nsym, int maxLen) {
	std::vector<std::vector<int>> r; r.push_back({});
	size_t from = 0;
	for (int l = 1; l <= maxLen; ++l) {
		size_t to = r.size();
		for (size_t i = from; i < to; ++i) for (int s = 0; s < nsym; ++s) { auto v = r[i]; v.push_back(s); r.push_back(v); }
		from = to;
	}
	return r;
}
static const std::vector<std::vector<int>> gX = seqs(NS, 3);        // 1+7+49+343 = 400; first 57 have length <= 2
static const std::vector<std::vector<int>> gShort = seqs(NSA, 3);   // 1+11+121+1331 = 1464
constexpr int NX2 = 57;
// The sanitizer build enumerates X of length <= 2; the plain -O2 build (variant "len3", thorough tier only) enumerates
// exactly the X of length 3, so that together they cover length <= 3 without doing anything twice.
#ifdef C13_LEN3_ONLY
constexpr bool kLen3Only = true;
#else
constexpr bool kLen3Only = false;
#endif
static int chooseLayout(bsx::Ctx& c, size_t n) { return kLen3Only ? 1 + c.choose(static_cast<int>(n) - 1, "layout") : c.choose(static_cast<int>(n), "layout"); }
static const std::vector<int>& chooseX(bsx::Ctx& c, bool shortText, int extra = 0) {
	if (shortText) { int i = c.choose(static_cast<int>(gShort.size()) + extra, "X"); static const std::vector<int> none; return i < static_cast<int>(gShort.size()) ? gShort[static_cast<size_t>(i)] : none; }
	if (kLen3Only) return gX[static_cast<size_t>(NX2 + c.choose(static_cast<int>(gX.size()) - NX2, "X"))];
	return gX[static_cast<size_t>(c.choose(NX2, "X"))];
}

struct Layout { int m; int off; int p; int q; };   // m == 0: short text (no filler)
static std::vector<Layout> layouts(int enc, bool bomOn, int boundary, int maxM, bool longTail) {
	std::vector<Layout> r; r.push_back({0, 0, 0, 0});
	int unit = static_cast<int>(refus::unitSize(enc)), bl = bomOn ? static_cast<int>(refus::bom(enc).size()) : 0;
	for (int m = 1; m <= maxM; ++m)
		for (int off = m * boundary - 8; off <= m * boundary + 8; ++off) {
			if (off < bl || (off - bl) % unit) continue;
			int p = (off - bl) / unit;
			r.push_back({m, off, p, 0}); r.push_back({m, off, p, 1});
			if (longTail) r.push_back({m, off, p, boundary / unit});
		}
	return r;
}

struct Case {
	std::u32string text; std::string desc;
	std::string bytes;                // BOM (iff configured) + reference encoding
	size_t bomLen = 0;
	std::vector<size_t> cumB;         // cumB[k] = encoded bytes of the first k code points
	size_t firstNul = static_cast<size_t>(-1);   // index of the first U+0000
};
static Case makeCase(int enc, bool bomOn, const Layout& lo, const std::vector<int>& x) {
	Case cs;
	cs.text.assign(static_cast<size_t>(lo.p), U'a');
	if (lo.p) cs.desc = "a^" + std::to_string(lo.p);
	for (int s : x) { cs.text.push_back(gSyms[s].cp); cs.desc += (cs.desc.empty() ? "" : "."); cs.desc += gSyms[s].name; }
	cs.text.append(static_cast<size_t>(lo.q), U'a');
	if (lo.q) cs.desc += ".a^" + std::to_string(lo.q);
	if (cs.desc.empty()) cs.desc = "(empty)";
	if (bomOn) { cs.bytes = refus::bom(enc); cs.bomLen = cs.bytes.size(); }
	cs.cumB.push_back(0);
	for (char32_t c : cs.text) { refus::encodeCp(cs.bytes, c, enc); cs.cumB.push_back(cs.bytes.size() - cs.bomLen); }
	cs.firstNul = cs.text.find(U'\0');
	return cs;
}

// ---- per-execution collectors -----------------------------------------------------------
struct VKey { const char* a; const char* b; const char* c; const char* d;
	bool operator<(const VKey& o) const { int r; if ((r = strcmp(a, o.a))) return r < 0; if ((r = strcmp(b, o.b))) return r < 0; if ((r = strcmp(c, o.c))) return r < 0; return strcmp(d, o.d) < 0; } };
struct Collect {
	std::map<VKey, std::pair<unsigned, std::string>> viol;   // (api/policy, class, outcome) -> (count, detail of the first)
	std::map<std::string, unsigned> outcomes;
	std::vector<uint32_t> states; uint64_t trans = 0, evals = 0;
	// all four parts must be string literals / static strings; detail() is evaluated for the first case of a signature only
	template <class F> void v(const char* a, const char* b, const char* cl, const char* out, F&& detail) { auto& e = viol[VKey{a, b, cl, out}]; if (!e.first++) e.second = detail(); }
	void o(const char* cls) { ++outcomes[cls]; }
	// render(a, b) gives the middle part of the signature
	void flush(bsx::Ctx& c, const std::string& sigbase, const std::string& emptyStreamSigbase = std::string()) {
		// an empty stream is the same input whatever encoding/BOM the case was generated from: do not name them
		for (auto& kv : viol) c.violation((!emptyStreamSigbase.empty() && !strcmp(kv.first.c, "empty_stream") ? emptyStreamSigbase : sigbase) + kv.first.a + kv.first.b + "/class=" + kv.first.c + "/out=" + kv.first.d, kv.second.second + " [" + std::to_string(kv.second.first) + " inner case(s) with this signature in this execution]");
		for (auto& kv : outcomes) c.outcome(kv.first);
		std::sort(states.begin(), states.end()); states.erase(std::unique(states.begin(), states.end()), states.end());
		for (uint32_t s : states) c.state(static_cast<uint64_t>(s) * 0x9E3779B97F4A7C15ull + 1);
		c.transition(trans); c.evals(evals);
	}
};

// What the statement promises about a (possibly truncated) stream.
struct Situation {
	size_t k = 0;              // complete code points present
	size_t rem = 0;            // bytes of a cut character present (0: stream ends at a character boundary)
	bool insideBom = false;    // BOM configured and the stream is cut inside it (or empty)
	bool demand = false;       // detection + content are promised
	const char* why = "";      // reason when not
	const char* cls = "";      // named class of the situation at the end of the stream
	const char* mcls = "";     // named class of the situation at the start of the stream (what detection sees)
};
static Situation classify(const Case& cs, int enc, bool bomOn, size_t t, size_t& kHint) {
	Situation s;
	if (bomOn && t < cs.bomLen) { s.insideBom = true; s.why = t ? "nodemand:cut_inside_bom" : "nodemand:empty_stream"; s.cls = s.mcls = t ? "cut_inside_bom" : "empty_stream"; return s; }
	size_t d = t - cs.bomLen, n = cs.text.size(), unit = refus::unitSize(enc);
	size_t k = kHint; if (k > n || cs.cumB[k] > d) k = 0;
	while (k < n && cs.cumB[k + 1] <= d) ++k;
	kHint = k; s.k = k; s.rem = d - cs.cumB[k];
	if (s.rem) {
		size_t full = cs.cumB[k + 1] - cs.cumB[k];
		if (enc == refus::U8) s.cls = full == 2 ? "cut_inside_2byte_char" : full == 3 ? "cut_inside_3byte_char" : "cut_inside_4byte_char";
		else if (enc == refus::U16LE || enc == refus::U16BE) {
			if (s.rem % 2) s.cls = "odd_byte_count_at_eof";
			else s.cls = ((cs.text[k] - 0x10000) >> 10) == 0x3FF ? "cut_between_surrogates_hi_dbff" : "cut_between_surrogates";
		} else s.cls = "partial_unit_at_eof";
	} else s.cls = t == cs.bytes.size() ? "complete" : "cut_at_char_boundary";
	bool nul = cs.firstNul < k || (s.rem && cs.firstNul == k);
	s.mcls = bomOn ? "with_bom" : d == unit ? "one_unit_no_bom" : nul ? "text_contains_nul_no_bom" : d < 2 * unit ? "one_unit_and_cut_no_bom" : d == 2 * unit ? "two_units_no_bom" : "longer_no_bom";
	if (bomOn) {
		// UTF-16LE BOM followed by U+0000 is byte-identical to the UTF-32LE BOM: nothing can be promised
		if (enc == refus::U16LE && k >= 1 && cs.text[0] == 0) { s.why = "nodemand:ambiguous_utf16le_bom_nul"; return s; }
		s.demand = true; return s;
	}
	if (k == 0) { s.why = t ? "nodemand:no_bom_no_complete_char" : "nodemand:empty_stream"; if (!t) s.cls = "empty_stream"; return s; }
	if (cs.text[0] == 0 || cs.text[0] > 0x7F) { s.why = "nodemand:no_bom_first_not_ascii"; return s; }
	// "a",NUL in UTF-8 is byte-identical to UTF-16LE "a"; in UTF-16LE to UTF-32LE "a"; in UTF-16BE to UTF-32LE U+6100
	if (enc != refus::U32LE && enc != refus::U32BE && k >= 2 && cs.text[1] == 0) { s.why = "nodemand:ambiguous_second_char_nul"; return s; }
	s.demand = true; return s;
}

static const char* gPolSig[] = {"/policy=skip", "/policy=throw"};
static std::string typeName(uint32_t raw) { return raw <= 4 ? refus::encName(static_cast<int>(raw)) : bsx::fmt("invalid(0x%x)", raw); }

// one stream object per execution: truncation = end of file at offset t (failAt), rewound for every run
struct Source {
	env::ChunkedInBuf buf; size_t first = 0;
	Source(const std::string& data, int delivery, size_t boundary) : buf(data) {
		if (delivery) { first = delivery == 1 ? 1 : delivery == 2 ? boundary - 1 : boundary + 1; size_t f = first; buf.deliver = [f](size_t avail, size_t refill) { return refill == 0 ? std::min(f, avail) : avail; }; }
	}
	void rewind(size_t t) { buf.failAt = static_cast<long>(t); buf.refills = 0; buf.pubseekpos(0, std::ios_base::in); }
};
static const char* gDelivery[] = {"all_at_once", "first_1_byte", "first_chunk_minus_1", "first_chunk_plus_1"};

// ---- scenario 0: CEncodedStreamReader ----------------------------------------------------
enum EndKind { EndFileK, DecodeErrorK, LivelockK, ExceptionK };
struct Obs { uint32_t typeRaw = 0; EndKind end = EndFileK; size_t calls = 0; bool overlapFirst = false, overlapLater = false, endStable = true, horizon = false; std::string what; };

template <class TChar, size_t Chunk>
static void runReader(Source& src, size_t t, int pol, int enc, std::basic_string<TChar>& out, Obs& o, Collect& col) {
	using R = U::CEncodedStreamReader<TChar, Chunk>;
	src.rewind(t);
	std::istream is(&src.buf);
	alignas(R) static unsigned char storage[sizeof(R)];
	memset(storage, 0xA5, sizeof(R));     // a member the constructor does not write keeps the pattern
	out.clear();
	const size_t horizon = t + 8;
	auto rec = [&](R* r) {
		uint32_t st = static_cast<uint32_t>(r->mStartDataPtr - r->mEncodedBuffer), en = static_cast<uint32_t>(r->mEndDataPtr - r->mEncodedBuffer);
		col.states.push_back(st | (en << 9) | (is.eof() ? 1u << 18 : 0) | (static_cast<uint32_t>(Chunk == 32 ? 0 : Chunk == 64 ? 1 : 2) << 19) | (static_cast<uint32_t>(refus::unitSize(enc)) << 21));
	};
	try {
		unsigned long ov = gOverlap;
		R* r = new (storage) R(is, pol ? U::UtfEncodingErrorPolicy::ThrowError : U::UtfEncodingErrorPolicy::Skip);
		o.typeRaw = static_cast<uint32_t>(r->mUtfType);
		if (gOverlap != ov) o.overlapFirst = true;
		rec(r);
		for (;;) {
			if (o.calls >= horizon) { o.end = LivelockK; o.horizon = true; break; }     // never let the harness hang
			auto s0 = r->mStartDataPtr, e0 = r->mEndDataPtr; size_t n0 = out.size(); bool eof0 = is.eof();
			ov = gOverlap;
			auto rr = r->ReadChunk(out); ++o.calls; ++col.trans;
			if (gOverlap != ov) (o.calls == 1 ? o.overlapFirst : o.overlapLater) = true;
			rec(r);
			if (rr == U::EncodedStreamReadResult::EndFile) {
				o.end = EndFileK; size_t n1 = out.size();
				if (r->ReadChunk(out) != U::EncodedStreamReadResult::EndFile || out.size() != n1 || !r->IsEnd()) o.endStable = false;
				++col.trans; break;
			}
			if (rr == U::EncodedStreamReadResult::DecodeError) { o.end = DecodeErrorK; break; }
			// Success without any change at end of input is a fixed point of a deterministic reader
			if (eof0 && is.eof() && s0 == r->mStartDataPtr && e0 == r->mEndDataPtr && n0 == out.size()) { o.end = LivelockK; break; }
		}
		if (o.typeRaw != 0xA5A5A5A5u) o.typeRaw = static_cast<uint32_t>(r->GetSourceUtfType());
		r->~R();
	}
	catch (const bsx::SkipSubtree&) { throw; }
	catch (const std::exception& e) { o.end = ExceptionK; o.what = bsx::demangle(typeid(e).name()) + ": " + e.what(); }
}

template <class TChar, size_t Chunk>
static void readerBlock(const Case& cs, int enc, bool bomOn, int delivery, Collect& col, bool selfCheck) {
	using Str = std::basic_string<TChar>;
	const Str full = refus::toNative<TChar>(cs.text), mark = refus::toNative<TChar>(std::u32string(1, 0x2610)), none;
	std::vector<size_t> cumN; cumN.push_back(0);
	for (char32_t c : cs.text) cumN.push_back(cumN.back() + (sizeof(TChar) == 1 ? refus::cpBytes(c, refus::U8) : sizeof(TChar) == 2 ? (c < 0x10000 ? 1 : 2) : 1));
	Str out, rawTail; size_t kHint = 0;
	Source src(cs.bytes, delivery, Chunk);
	for (size_t t = 0; t <= cs.bytes.size(); ++t) {
		Situation s = classify(cs, enc, bomOn, t, kHint);
		if (selfCheck && !s.insideBom) {
			// the boundary arithmetic above against the strict reference decoder
			refus::Decoded d = refus::decode(cs.bytes.substr(cs.bomLen, t - cs.bomLen), enc);
			bool ok = d.text == cs.text.substr(0, s.k) && d.consumed == cs.cumB[s.k] && (s.rem ? d.tail == refus::TailTruncated : d.tail == refus::TailNone);
			if (!ok) col.v("", "", s.cls, "ref_selfcheck", [&] { return "reference decoder and boundary arithmetic disagree: text=" + cs.desc + " t=" + std::to_string(t); });
		}
		for (int pol = 0; pol < 2; ++pol) {
			Obs o; runReader<TChar, Chunk>(src, t, pol, enc, out, o, col); ++col.evals;
			const char* P = gPolSig[pol];
			auto det = [&](const std::string& msg) {
				return [&, msg] {
					std::string data = cs.bytes.substr(0, t);
					return msg + ": text=" + cs.desc + " stream bytes=" + std::to_string(t) + "/" + std::to_string(cs.bytes.size()) + " (" + bsx::hex(data.size() > 24 ? data.substr(0, 8) : data) + (data.size() > 24 ? "..." + bsx::hex(data.substr(data.size() - 12)) : "") + ")"
						+ " delivery=" + gDelivery[delivery] + " calls=" + std::to_string(o.calls) + " result=" + (o.end == EndFileK ? "EndFile" : o.end == DecodeErrorK ? "DecodeError" : o.end == LivelockK ? "livelock" : "exception")
						+ " detected=" + typeName(o.typeRaw) + " got=" + refus::dumpNative(out) + " expected_prefix_units=" + std::to_string(cumN[s.k]) + (s.rem ? " + cut character" : "");
				};
			};
			if (o.overlapFirst) col.v(P, "", "squeeze_after_bom", "memcpy_overlap", det("ReadNextEncodedChunk squeezes its buffer with memcpy on overlapping ranges (undefined behaviour; executed as memmove to continue)"));
			if (o.overlapLater) col.v(P, "", s.cls, "memcpy_overlap_later_chunk", det("overlapping memcpy while squeezing a later chunk"));
			if (o.typeRaw == 0xA5A5A5A5u) col.v(P, "", s.cls, "utf_type_uninitialized", det("GetSourceUtfType() returns mUtfType, which the constructor never wrote (nothing could be read from the stream)"));
			if (o.end == ExceptionK) { col.o("exception"); col.v(P, "", s.cls, "exception", det("ReadChunk threw " + o.what)); continue; }
			if (s.demand && o.typeRaw != static_cast<uint32_t>(enc)) {
				// one cause, one signature: whatever follows (wrong text, livelock on an odd byte count) is a consequence
				col.o("misdetected");
				col.v(P, "", s.mcls, "misdetected", det("stream written as " + std::string(refus::encName(enc)) + " detected as " + typeName(o.typeRaw)));
				continue;
			}
			if (o.end == LivelockK) {
				col.o("livelock");
				const char* lcls = s.demand ? s.cls : (o.typeRaw == 1 || o.typeRaw == 2) ? "undemanded_detection_utf16_odd_byte_count" : (o.typeRaw == 3 || o.typeRaw == 4) ? "undemanded_detection_utf32_partial_unit" : "undemanded_detection_other";
				col.v(P, "", lcls, "livelock", det(o.horizon ? "ReadChunk did not reach EndFile within bytes+8 calls" : "ReadChunk returns Success at end of input without consuming or producing anything (same window, same output), so every further call repeats it"));
				continue;
			}
			if (o.end == EndFileK && !o.endStable) col.v(P, "", s.cls, "end_not_stable", det("after EndFile a further ReadChunk did not return EndFile / appended text / IsEnd() false"));
			if (!s.demand) { col.o(s.why); continue; }
			const size_t pn = cumN[s.k];
			auto isPrefixPlus = [&](const Str& tail) { return out.size() == pn + tail.size() && out.compare(0, pn, full, 0, pn) == 0 && out.compare(pn, tail.size(), tail) == 0; };
			if (!s.rem) {
				if (o.end == DecodeErrorK) { col.o("decode_error"); col.v(P, "", s.cls, "decode_error_on_wellformed", det("well-formed stream gives DecodeError")); continue; }
				if (!isPrefixPlus(none)) { col.o("wrong_text"); col.v(P, "", s.cls, "wrong_text", det("text read differs from text written")); continue; }
				col.o(t == cs.bytes.size() ? "ok:complete" : "ok:cut_at_char_boundary");
				continue;
			}
			// stream cut inside a character
			rawTail.clear();
			const char* passed = "partial_bytes_passed_through";
			if (sizeof(TChar) == 1 && enc == refus::U8) rawTail.assign(reinterpret_cast<const TChar*>(cs.bytes.data()) + cs.bomLen + cs.cumB[s.k], s.rem);
			else if (sizeof(TChar) == 2 && (enc == refus::U16LE || enc == refus::U16BE) && s.rem == 2) { rawTail.assign(1, static_cast<TChar>(0xD800 | ((cs.text[s.k] - 0x10000) >> 10))); passed = "lone_high_surrogate_passed_through"; }
			if (pol == 0) {
				if (o.end == DecodeErrorK) { col.o("decode_error"); col.v(P, "", s.cls, "decode_error_under_skip", det("DecodeError although the policy is Skip")); }
				else if (isPrefixPlus(mark)) col.o("ok:mark");
				else if (isPrefixPlus(none)) { col.o("silent_loss"); col.v(P, "", s.cls, "silent_loss", det("the cut character disappears: no error mark, no error")); }
				else if (!rawTail.empty() && isPrefixPlus(rawTail)) { col.o(passed); col.v(P, "", s.cls, passed, det("the code units of the cut character that are present are delivered as text: no error mark, no error")); }
				else { col.o("wrong_text"); col.v(P, "", s.cls, "wrong_text", det("expected the complete prefix followed by exactly one error mark")); }
			} else {
				if (o.end == DecodeErrorK) {
					if (isPrefixPlus(none)) col.o("ok:decode_error");
					else { col.o("wrong_text"); col.v(P, "", s.cls, "wrong_text_before_error", det("DecodeError reported, but the text delivered before it is not the complete prefix")); }
				}
				else if (isPrefixPlus(none)) { col.o("silent_loss"); col.v(P, "", s.cls, "silent_loss", det("the cut character disappears: EndFile without DecodeError under ThrowError")); }
				else if (!rawTail.empty() && isPrefixPlus(rawTail)) { col.o(passed); col.v(P, "", s.cls, passed, det("the code units of the cut character that are present are delivered as text and no DecodeError is reported under ThrowError")); }
				else if (isPrefixPlus(mark)) { col.o("mark_under_throw"); col.v(P, "", s.cls, "mark_instead_of_error", det("error mark written although the policy is ThrowError")); }
				else { col.o("wrong_text"); col.v(P, "", s.cls, "wrong_text", det("expected DecodeError after the complete prefix")); }
			}
		}
	}
}

template <size_t Chunk>
static void readerDispatch(int target, const Case& cs, int enc, bool bomOn, int delivery, Collect& col, bool selfCheck) {
	if (target == 0) readerBlock<char, Chunk>(cs, enc, bomOn, delivery, col, selfCheck);
	else if (target == 1) readerBlock<char16_t, Chunk>(cs, enc, bomOn, delivery, col, selfCheck);
	else readerBlock<char32_t, Chunk>(cs, enc, bomOn, delivery, col, selfCheck);
}

static void scenReader(bsx::Ctx& c) {
	const bool thorough = c.tier == "thorough";
	int enc = c.choose(5, "enc"), bomOn = c.choose(2, "bom"), ci = c.choose(3, "chunk"), target = c.choose(3, "target");
	static std::map<int, std::vector<Layout>> cache;
	auto& lays = cache[enc * 8 + bomOn * 4 + ci];
	// quick tier: the 256-byte chunk is swept around its first boundary only and without the one-chunk tail
	const bool reduced = !thorough && gChunks[ci] == 256;
	if (lays.empty()) lays = layouts(enc, bomOn != 0, gChunks[ci], reduced ? 1 : 2, !reduced);
	int li = chooseLayout(c, lays.size());
	const Layout& lo = lays[static_cast<size_t>(li)];
	const std::vector<int>& x = chooseX(c, lo.m == 0);
	int delivery = c.deviate(thorough && !kLen3Only ? 4 : 2, "delivery");
	if (c.budget > 0 && delivery == 0) return;    // executions below the budget were committed by the previous pass
	Case cs = makeCase(enc, bomOn != 0, lo, x);
	std::string sigbase = std::string("C13/reader/enc=") + refus::encName(enc) + "/bom=" + (bomOn ? "on" : "off") + "/chunk=" + std::to_string(gChunks[ci]) + "/target=" + gTargets[target];
	c.describe(sigbase, "text=" + cs.desc + " bytes=" + std::to_string(cs.bytes.size()) + " layout: X at byte offset " + std::to_string(lo.off) + " delivery=" + gDelivery[delivery] + "; every truncation point x both policies");
	Collect col;
	bool selfCheck = lo.m == 0;
	if (ci == 0) readerDispatch<32>(target, cs, enc, bomOn != 0, delivery, col, selfCheck);
	else if (ci == 1) readerDispatch<64>(target, cs, enc, bomOn != 0, delivery, col, selfCheck);
	else readerDispatch<256>(target, cs, enc, bomOn != 0, delivery, col, selfCheck);
	c.nontrivial(bsx::fnv(cs.bytes, bsx::fnv(sigbase)) + static_cast<uint64_t>(delivery));
	if (enc == 1 && lo.m == 1 && x.size() == 2 && x[0] == 3 && x[1] == 1) c.sample(sigbase + " text=" + cs.desc + " stream=" + bsx::hex(cs.bytes.substr(0, 40)) + (cs.bytes.size() > 40 ? "..." : ""));
	col.flush(c, sigbase, std::string("C13/reader/enc=any/bom=any/chunk=") + std::to_string(gChunks[ci]) + "/target=" + gTargets[target]);
}

// ---- scenario 1: DetectEncoding (string and stream overloads) ----------------------------
static void scenDetect(bsx::Ctx& c) {
	const bool thorough = c.tier == "thorough";
	int enc = c.choose(5, "enc"), bomOn = c.choose(2, "bom"), skipBom = c.choose(2, "skipBomWhenFound"), origPos = c.choose(2, "origPos") ? 3 : 0;
	static std::map<int, std::vector<Layout>> cache;
	auto& lays = cache[enc * 2 + bomOn];
	if (lays.empty()) lays = layouts(enc, bomOn != 0, 128, 1, false);   // 128 = size of the look-ahead buffer of the stream overload
	int li = chooseLayout(c, lays.size());
	const Layout& lo = lays[static_cast<size_t>(li)];
	const std::vector<int>& x = chooseX(c, lo.m == 0);
	int delivery = c.deviate(thorough && !kLen3Only ? 4 : 2, "delivery");
	if (c.budget > 0 && delivery == 0) return;
	Case cs = makeCase(enc, bomOn != 0, lo, x);
	std::string sb = std::string("C13/detect/enc=") + refus::encName(enc) + "/bom=" + (bomOn ? "on" : "off");
	c.describe(sb, "text=" + cs.desc + " skipBomWhenFound=" + std::to_string(skipBom) + " origPos=" + std::to_string(origPos) + " delivery=" + gDelivery[delivery] + "; every truncation point");
	static const char* apiName[] = {"/api=stream/skipbom=no/origpos=0", "/api=stream/skipbom=no/origpos=3", "/api=stream/skipbom=yes/origpos=0", "/api=stream/skipbom=yes/origpos=3"};
	const char* API = apiName[skipBom * 2 + (origPos ? 1 : 0)];
	Collect col; size_t kHint = 0;
	const std::string data = std::string(static_cast<size_t>(origPos), '#') + cs.bytes;
	Source src(data, delivery, 128);
	for (size_t t = 0; t <= cs.bytes.size(); ++t) {
		Situation s = classify(cs, enc, bomOn != 0, t, kHint);
		auto det = [&](const std::string& msg) { return [&, msg] { return msg + ": text=" + cs.desc + " stream bytes=" + std::to_string(t) + "/" + std::to_string(cs.bytes.size()) + " (" + bsx::hex(cs.bytes.substr(0, std::min<size_t>(t, 16))) + (t > 16 ? "..." : "") + ")"; }; };
		// string overload (skipBom/origPos/delivery do not apply: run it in one of the combinations only)
		if (!skipBom && !origPos && delivery == 0) {
			std::vector<char> exact(cs.bytes.begin(), cs.bytes.begin() + static_cast<long>(t));   // exact-size heap block: over-reads are caught
			size_t off = 777; ++col.evals;
			U::UtfType ty = U::DetectEncoding(std::string_view(exact.data(), exact.size()), off);
			if (s.demand) {
				if (static_cast<int>(ty) != enc) { col.o("misdetected"); col.v("/api=string", "", s.mcls, "misdetected", det("written as " + std::string(refus::encName(enc)) + ", detected as " + typeName(static_cast<uint32_t>(ty)))); }
				else if (off != cs.bomLen) { col.o("wrong_offset"); col.v("/api=string", "", s.cls, "wrong_data_offset", det("data offset " + std::to_string(off) + " expected " + std::to_string(cs.bomLen))); }
				else col.o("ok:string");
			} else {
				col.o(s.why);
				// universal: the reported offset is the BOM length of the reported type iff the bytes start with that BOM, else 0
				std::string b = static_cast<uint32_t>(ty) <= 4 ? refus::bom(static_cast<int>(ty)) : std::string(); bool has = t >= b.size() && cs.bytes.compare(0, b.size(), b) == 0;
				if (static_cast<uint32_t>(ty) > 4 || off != (has ? b.size() : 0)) col.v("/api=string", "", s.cls, "offset_inconsistent_with_type", det("type " + typeName(static_cast<uint32_t>(ty)) + " offset " + std::to_string(off)));
			}
		}
		// stream overload
		{
			const size_t end = static_cast<size_t>(origPos) + t;
			src.rewind(end);
			std::istream is(&src.buf);
			char junk[4]; if (origPos) is.read(junk, origPos);
			++col.evals; ++col.trans;
			U::UtfType ty = U::DetectEncoding(is, skipBom != 0);
			bool typeOk = true;
			if (s.demand && static_cast<int>(ty) != enc) { typeOk = false; col.o("misdetected"); col.v(API, "", s.mcls, "misdetected", det("written as " + std::string(refus::encName(enc)) + ", detected as " + typeName(static_cast<uint32_t>(ty)))); }
			if (static_cast<uint32_t>(ty) > 4) { col.v(API, "", s.cls, "invalid_type", det("invalid UtfType value")); continue; }
			// documented position: original position, plus the BOM of the detected encoding when it is there and skipping was asked for
			std::string b = refus::bom(static_cast<int>(ty)); bool has = t >= b.size() && cs.bytes.compare(0, b.size(), b) == 0;
			size_t expectPos = static_cast<size_t>(origPos) + (skipBom && has ? b.size() : 0);
			col.states.push_back(static_cast<uint32_t>(std::min<size_t>(t, 200)) | (static_cast<uint32_t>(is.rdstate()) << 8) | (has ? 1u << 12 : 0) | (static_cast<uint32_t>(ty) << 13) | 1u << 30);
			if (!is.good()) { int st = static_cast<int>(is.rdstate()); col.o("stream_not_good"); col.v(API, "", s.cls, "stream_not_good_after_detect", det("stream state after DetectEncoding is " + std::to_string(st) + " (eof/fail bits set): the caller cannot read the text")); continue; }
			std::streamoff pos = is.tellg();
			if (pos != static_cast<std::streamoff>(expectPos)) { col.o("wrong_position"); col.v(API, "", s.cls, "wrong_stream_position", det("position after DetectEncoding is " + std::to_string(pos) + ", documented " + std::to_string(expectPos))); continue; }
			static std::string rest; rest.assign(end - expectPos + 4, '\0'); is.read(&rest[0], static_cast<std::streamsize>(rest.size())); rest.resize(static_cast<size_t>(is.gcount()));
			if (rest.size() != end - expectPos || data.compare(expectPos, rest.size(), rest) != 0) { col.o("wrong_rest"); col.v(API, "", s.cls, "wrong_rest_of_stream", det("bytes read after DetectEncoding differ from the stream content at the documented position")); continue; }
			if (typeOk) col.o(s.demand ? "ok:stream" : s.why);
		}
	}
	c.nontrivial(bsx::fnv(cs.bytes, bsx::fnv(sb)) + static_cast<uint64_t>(delivery * 4 + skipBom * 2 + (origPos ? 1 : 0)));
	if (enc == 2 && lo.m == 0 && x.size() == 1 && x[0] == 2) c.sample(sb + " text=" + cs.desc + " stream=" + bsx::hex(cs.bytes));
	col.flush(c, sb, "C13/detect/enc=any/bom=any");
}

// ---- scenario 2: CEncodedStreamWriter ----------------------------------------------------
static const char* gSrc[] = {"char", "char16", "char32", "wchar"};
template <class TSrc>
static void writerBlock(const Case& cs, int enc, bool bomOn, int pol, Collect& col) {
	using Str = std::basic_string<TSrc>;
	const std::string& expected = cs.bytes;   // BOM iff configured + reference encoding
	const size_t n = cs.text.size();
	// one Write call (split == 0), and every split of the text into two Write calls at a code point boundary
	for (size_t split = 0; split < std::max<size_t>(n, 1); ++split) {
		if (n > 12 && split > 3 && split + 3 < n && cs.text[split - 1] == U'a' && cs.text[split] == U'a') continue;   // inside the filler: only near its ends
		Str p1 = refus::toNative<TSrc>(cs.text.substr(0, split)), p2 = refus::toNative<TSrc>(cs.text.substr(split));
		std::ostringstream os; ++col.evals; ++col.trans;
		const char* cls = split == 0 ? "one_call" : "two_calls";
		auto det = [&](const std::string& msg) { return [&, msg] { return msg + ": text=" + cs.desc + " split at code point " + std::to_string(split) + " written=" + bsx::hex(os.str().substr(0, 48)) + " expected=" + bsx::hex(expected.substr(0, 48)); }; };
		try {
			U::CEncodedStreamWriter w(os, static_cast<U::UtfType>(enc), bomOn, pol ? U::UtfEncodingErrorPolicy::ThrowError : U::UtfEncodingErrorPolicy::Skip);
			U::UtfEncodingErrorCode r1 = U::UtfEncodingErrorCode::Success, r2;
			if (split) r1 = w.Write(p1);                                       // std::basic_string overload
			r2 = w.Write(std::basic_string_view<TSrc>(p2.data(), p2.size()));   // string_view overload
			if (r1 != U::UtfEncodingErrorCode::Success || r2 != U::UtfEncodingErrorCode::Success) { col.o("write_error"); col.v("", "", cls, "error_code_on_wellformed", det("Write returned error code " + std::to_string(static_cast<int>(r1 != U::UtfEncodingErrorCode::Success ? r1 : r2)))); continue; }
			if (!os.good()) { col.v("", "", cls, "stream_not_good", det("output stream failed")); continue; }
			if (os.str() != expected) { col.o("wrong_bytes"); col.v("", "", cls, "wrong_bytes", det("bytes written differ from BOM(iff configured) + reference encoding")); continue; }
			col.o(split ? "ok:two_calls" : "ok:one_call");
		}
		catch (const bsx::SkipSubtree&) { throw; }
		catch (const std::exception& e) { col.o("exception"); col.v("", "", cls, "exception", det("threw " + bsx::demangle(typeid(e).name()) + ": " + e.what())); }
	}
}
template <class TSrc>
static void writerLiteral(int enc, bool bomOn, const TSrc (&lit)[3], Collect& col) {
	// the character array overload given a string literal: the text is "az"
	std::ostringstream os; ++col.evals;
	U::CEncodedStreamWriter w(os, static_cast<U::UtfType>(enc), bomOn);
	auto rc = w.Write(lit);
	std::string expected = (bomOn ? refus::bom(enc) : std::string()) + refus::encode(U"az", enc);
	if (rc != U::UtfEncodingErrorCode::Success || os.str() != expected) {
		col.o("wrong_bytes");
		col.v("", "", "literal_array", "wrong_bytes", [&] { return "Write(\"az\") (array overload given a string literal) wrote " + bsx::hex(os.str()) + " expected " + bsx::hex(expected) + (os.str() == expected + refus::encode(std::u32string(1, 0), enc) ? " (the terminating NUL is written as text)" : ""); });
	}
	else col.o("ok:literal");
}


// ---- writer given ill-formed source text -------------------------------------------------------------------------
// Source strings are all unit strings of length <= 3 over a per-width alphabet with ill-formed units (lone surrogates,
// surrogate / out-of-range code points, lone lead and tail octets). Whatever the source, what reaches the stream must be
// well-formed in the configured encoding: under ThrowError an ill-formed source makes Write report an error, under Skip the
// well-formed characters are kept in order and every run of ill-formed units becomes 1..run-length error marks.
template <class TSrc> struct IllAlpha;
template <> struct IllAlpha<char> { static constexpr unsigned u[4] = {0x61, 0xC3, 0xA9, 0xE2}; };
template <> struct IllAlpha<char16_t> { static constexpr unsigned u[4] = {0x61, 0x20AC, 0xD83D, 0xDE00}; };
template <> struct IllAlpha<char32_t> { static constexpr unsigned u[4] = {0x61, 0x1F600, 0xD800, 0x110000}; };
template <> struct IllAlpha<wchar_t> { static constexpr unsigned u[4] = {0x61, 0x1F600, 0xDC00, 0x110000}; };
template <class TSrc>
static void writerIllFormed(int enc, bool bomOn, int pol, Collect& col, std::string& sampleOut) {
	using Str = std::basic_string<TSrc>;
	const std::string bom = bomOn ? refus::bom(enc) : std::string();
	for (int len = 1; len <= 3; ++len) {
		int total = 1; for (int i = 0; i < len; ++i) total *= 4;
		for (int wsel = 0; wsel < total; ++wsel) {
			Str w; int x = wsel; std::string desc;
			for (int i = 0; i < len; ++i) { unsigned u = IllAlpha<TSrc>::u[x % 4]; x /= 4; w.push_back(static_cast<TSrc>(u)); desc += bsx::fmt("%X ", u); }
			uint32_t in[4]; for (size_t i = 0; i < w.size(); ++i) in[i] = static_cast<uint32_t>(static_cast<std::make_unsigned_t<TSrc>>(w[i]));
			ref::utf::Nfa nfa(in, w.size(), static_cast<int>(sizeof(TSrc))); const bool anyIll = !nfa.allValid();
			bool incompleteTail = false; for (size_t i = 0; i < w.size(); ++i) incompleteTail = incompleteTail || nfa.incompleteAt(i);
			std::ostringstream os; ++col.evals; ++col.trans;
			const char* cls = anyIll ? nfa.classAt(nfa.firstIll) : "wellformed_source";   // named class of the first ill-formed position
			auto det = [&](const std::string& msg) { return [&, msg] { return msg + ": source units=" + desc + "written=" + bsx::hex(os.str().substr(0, 48)); }; };
			try {
				U::CEncodedStreamWriter wr(os, static_cast<U::UtfType>(enc), bomOn, pol ? U::UtfEncodingErrorPolicy::ThrowError : U::UtfEncodingErrorPolicy::Skip);
				U::UtfEncodingErrorCode rc = wr.Write(std::basic_string_view<TSrc>(w.data(), w.size()));
				std::string got = os.str();
				if (got.compare(0, bom.size(), bom) != 0) { col.o("bom_missing"); col.v("/illformed_source", "", cls, "bom_missing", det("the configured BOM is not at the start")); continue; }
				refus::Decoded d = refus::decode(got.substr(bom.size()), enc);
				if (d.tail != refus::TailNone) { col.o("illformed_output"); col.v("/illformed_source", "", cls, "illformed_output", det("what was written is not well-formed in the configured encoding (return code " + std::to_string(static_cast<int>(rc)) + ")")); continue; }
				std::vector<uint32_t> outU(d.text.begin(), d.text.end()); const uint32_t mark = 0x2610;
				if (pol && anyIll) {
					if (rc == U::UtfEncodingErrorCode::Success) { col.o("error_not_reported"); col.v("/illformed_source", "", cls, "error_not_reported", det("ThrowError policy, ill-formed source, but Write returned Success")); continue; }
					col.o("ok:error_reported"); continue;
				}
				if (rc == U::UtfEncodingErrorCode::UnexpectedEnd && incompleteTail) {
					// the source ends inside a sequence: "unexpected end" is the documented answer of the transcoders (C12); what was written so far must be derivable
					bool okPrefix = outU.empty(); for (size_t st = 0; st < w.size() && !okPrefix; ++st) okPrefix = nfa.incompleteAt(st) && nfa.match(outU.data(), outU.size(), 4, &mark, 1, st, SIZE_MAX);
					if (!okPrefix) { col.o("wrong_text"); col.v("/illformed_source", "", cls, "wrong_text_before_unexpected_end", det("text written before the reported unexpected end is not derivable from the source")); continue; }
					col.o("ok:unexpected_end"); continue;
				}
				if (rc != U::UtfEncodingErrorCode::Success) { col.o("write_error"); col.v("/illformed_source", "", cls, "unexpected_error_code", det("Write returned error code " + std::to_string(static_cast<int>(rc)))); continue; }
				if (!nfa.match(outU.data(), outU.size(), 4, &mark, 1, w.size(), SIZE_MAX)) { col.o("wrong_text"); col.v("/illformed_source", "", cls, "wrong_text", det("decoded output is not derivable (well-formed characters in order, one mark per ill-formed sequence of 1..declared-length units)")); continue; }
				col.o(anyIll ? "ok:marks" : "ok:exact");
				if (anyIll && sampleOut.empty()) sampleOut = "source units " + desc + "-> " + bsx::hex(got);
			}
			catch (const bsx::SkipSubtree&) { throw; }
			catch (const std::exception& e) { col.o("exception"); col.v("/illformed_source", "", cls, "exception", det("threw " + bsx::demangle(typeid(e).name()) + ": " + e.what())); }
		}
	}
}

static void scenWriter(bsx::Ctx& c) {
	int enc = c.choose(5, "enc"), bomOn = c.choose(2, "bom"), src = c.choose(4, "srcwidth"), pol = c.choose(2, "policy");
	// text groups: 0 = short texts, then a^p X a^q for p in {1, 40} x q in {0, 1}
	static const Layout wl[] = {{0, 0, 0, 0}, {1, 0, 1, 0}, {1, 0, 1, 1}, {1, 0, 40, 0}, {1, 0, 40, 1}};
	int li = chooseLayout(c, 5);
	const Layout& lo = wl[li];
	const std::vector<int>& x = chooseX(c, lo.m == 0, 1);   // the extra alternative of the short texts is the literal-array case
	const bool literal = lo.m == 0 && c.choices().back() == static_cast<int>(gShort.size());
	std::string sb = std::string("C13/writer/enc=") + refus::encName(enc) + "/bom=" + (bomOn ? "on" : "off") + "/src=" + gSrc[src] + gPolSig[pol];
	Collect col;
	if (literal) {
		c.describe(sb, "array overload with the literal \"az\"");
		if (src == 0) writerLiteral<char>(enc, bomOn != 0, "az", col);
		else if (src == 1) writerLiteral<char16_t>(enc, bomOn != 0, u"az", col);
		else if (src == 2) writerLiteral<char32_t>(enc, bomOn != 0, U"az", col);
		else writerLiteral<wchar_t>(enc, bomOn != 0, L"az", col);
		col.flush(c, sb); return;
	}
	if (lo.m == 0 && x.empty() && !kLen3Only) {
		// the empty short text stands for the ill-formed-source block (all unit strings of length <= 3 over the per-width alphabet)
		c.describe(sb, "ill-formed source units"); std::string smp;
		if (src == 0) writerIllFormed<char>(enc, bomOn != 0, pol, col, smp); else if (src == 1) writerIllFormed<char16_t>(enc, bomOn != 0, pol, col, smp);
		else if (src == 2) writerIllFormed<char32_t>(enc, bomOn != 0, pol, col, smp); else writerIllFormed<wchar_t>(enc, bomOn != 0, pol, col, smp);
		c.nontrivial(bsx::fnv(sb + "/illformed")); if (enc == 1 && src == 2 && !pol && !smp.empty()) c.sample(sb + " " + smp);
	}
	Case cs = makeCase(enc, bomOn != 0, lo, x);
	c.describe(sb, "text=" + cs.desc + "; one Write call and every split into two calls");
	if (src == 0) writerBlock<char>(cs, enc, bomOn != 0, pol, col);
	else if (src == 1) writerBlock<char16_t>(cs, enc, bomOn != 0, pol, col);
	else if (src == 2) writerBlock<char32_t>(cs, enc, bomOn != 0, pol, col);
	else writerBlock<wchar_t>(cs, enc, bomOn != 0, pol, col);
	c.nontrivial(bsx::fnv(cs.bytes, bsx::fnv(sb)));
	if (enc == 4 && src == 0 && li == 1 && x.size() == 2 && x[0] == 1 && x[1] == 5) c.sample(sb + " text=" + cs.desc + " expected=" + bsx::hex(cs.bytes));
	col.flush(c, sb);
}

// ---- scenario 3: CSV / JSON / XML stream loaders on a one-record document -------------------
struct Row { std::string s; int n = 0; template <class A> void Serialize(A& a) { a << BitSerializer::KeyValue("s", s) << BitSerializer::KeyValue("n", n); } };
static const char* gFmt[] = {"csv", "json", "xml"};
static void scenLoader(bsx::Ctx& c) {
	namespace BS = BitSerializer;
	int fmt = c.choose(3, "format"), enc = c.choose(5, "enc"), bomOn = c.choose(2, "bom");
	// the string value is a^p . X . z; for CSV (the loader that reads through CEncodedStreamReader<char>) p also sweeps X over every
	// byte offset chunk-8..chunk+8 of the encoded document; last alternative: the fixed document with its last byte cut off
	const int unit = static_cast<int>(refus::unitSize(enc)), bl = bomOn ? static_cast<int>(refus::bom(enc).size()) : 0;
	const int chunk = static_cast<int>(U::CEncodedStreamReader<char>::chunk_size), headLen = 5;   // "s,n\r\n"
	std::vector<int> ps = {0, 1, 40};
	if (fmt == 0) for (int off = chunk - 8; off <= chunk + 8; ++off) { int d = off - bl - headLen * unit; if (d >= 0 && d % unit == 0) ps.push_back(d / unit); }
	int pi = c.choose(static_cast<int>(ps.size()) + 1, "p");
	const bool cut = pi == static_cast<int>(ps.size());
	static const std::vector<std::vector<int>> xs = seqs(NS - 1, 2);   // without U+0000 (not a character of CSV/JSON/XML text)
	const std::vector<int>& x = cut ? xs[2] : xs[static_cast<size_t>(c.choose(static_cast<int>(xs.size()), "X"))];
	c.choose(1, "-");
	if (c.budget > 0) return;   // no delivery deviation in this scenario: everything was committed by the first pass
	std::u32string val(static_cast<size_t>(cut ? 1 : ps[static_cast<size_t>(pi)]), U'a'); std::string desc = "a^" + std::to_string(val.size());
	bool nonAscii = false;
	for (int sidx : x) { val.push_back(gSyms[sidx].cp); desc += std::string(".") + gSyms[sidx].name; if (gSyms[sidx].cp > 0x7F) nonAscii = true; }
	val.push_back(U'z'); desc += ".z";
	std::u32string doc = fmt == 0 ? U"s,n\r\n" + val + U",7\r\n" : fmt == 1 ? U"{\"s\":\"" + val + U"\",\"n\":7}" : U"<?xml version=\"1.0\"?><root><s>" + val + U"</s><n>7</n></root>";
	std::string bytes = (bomOn ? refus::bom(enc) : std::string()) + refus::encode(doc, enc);
	if (cut) bytes.pop_back();
	const char* cls = cut ? "last_byte_cut" : nonAscii ? "non_ascii_text" : "ascii_text";
	std::string sb = std::string("C13/loader/fmt=") + gFmt[fmt] + "/enc=" + refus::encName(enc) + "/bom=" + (bomOn ? "on" : "off");
	c.describe(sb + "/class=" + cls, "string value=" + desc + " document bytes=" + std::to_string(bytes.size()) + " (" + bsx::hex(bytes.substr(0, 24)) + "...)");
	std::istringstream is(bytes);
	Row row; std::vector<Row> rows;
	unsigned long ov = gOverlap; bool livelock = false;
	gGuardReads = true; gDeadReads = 0;
	lib::Out out = lib::guard([&] {
		try {
			if (fmt == 0) BS::LoadObject<BS::Csv::CsvArchive>(rows, is);
			else if (fmt == 1) BS::LoadObject<BS::Json::RapidJson::JsonArchive>(row, is);
			else BS::LoadObject<BS::Xml::PugiXml::XmlArchive>(BS::KeyValue("root", row), is);
		} catch (const LivelockDetected&) { livelock = true; }
	});
	gGuardReads = false;
	if (livelock) {
		c.outcome("livelock");
		c.violation(sb + "/class=" + cls + "/out=livelock", "the load never comes back: 10000 consecutive istream::read calls at end of input (CCsvStreamReader::ParseNextLine loops on ReadChunk()==Success): value=" + desc + " document bytes=" + std::to_string(bytes.size()) + " (" + bsx::hex(bytes.substr(bytes.size() > 16 ? bytes.size() - 16 : 0)) + " at the end)");
		return;
	}
	if (fmt == 0 && rows.size() == 1) row = rows[0];
	c.transition(); c.state(bsx::fnv(out.cls) ^ static_cast<uint64_t>(fmt * 16 + enc * 2 + bomOn));
	if (gOverlap != ov) c.violation(sb + "/class=squeeze_after_bom/out=memcpy_overlap", "overlapping memcpy inside the load (CEncodedStreamReader buffer squeeze): value=" + desc);
	c.outcome(std::string(cut ? "cut:" : "") + out.cls);
	if (cut) {
		// a document cut inside its last character: the load has to come back (result or SerializationException)
		if (out.cls == "nonstd" || out.cls.rfind("std:", 0) == 0) c.violation(sb + "/class=" + cls + "/out=" + out.cls, "load threw a non-serialization exception: " + out.what);
		return;
	}
	c.nontrivial(bsx::fnv(bytes, static_cast<uint64_t>(fmt)));
	if (fmt == 1 && enc == 1 && x.size() == 1 && x[0] == 2 && pi == 1) c.sample(sb + " value=" + desc + " document=" + bsx::hex(bytes));
	if (!out.ok()) { c.violation(sb + "/class=" + cls + "/out=" + out.cls, "well-formed " + std::string(gFmt[fmt]) + " document in " + refus::encName(enc) + " rejected: " + out.what + " value=" + desc + " bytes=" + bsx::hex(bytes.substr(0, 64))); return; }
	if ((fmt == 0 && rows.size() != 1) || row.s != refus::toUtf8(val) || row.n != 7)
		c.violation(sb + "/class=" + cls + "/out=wrong_value", "loaded s=" + bsx::hex(row.s.substr(0, 48)) + " (" + std::to_string(row.s.size()) + " bytes) n=" + std::to_string(row.n) + " rows=" + std::to_string(rows.size()) + ", expected s=" + bsx::hex(refus::toUtf8(val).substr(0, 48)) + " n=7: value=" + desc);
}

static void body(bsx::Ctx& c) {
	int scen = c.choose(kLen3Only ? 3 : 4, "scenario");
	if (scen == 0) scenReader(c);
	else if (scen == 1) scenDetect(c);
	else if (scen == 2) scenWriter(c);
	else scenLoader(c);
}

int main(int argc, char** argv) {
	bsx::Config cfg; cfg.part_depth = 6; cfg.max_dev = 1; cfg.hang_s = 3;
	bsx::Engine e("C13", body, cfg);
	return e.main(argc, argv);
}
