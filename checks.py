# checks.py — registry of checks; one fragment per property in checks.d/<id>.py defining CHECK = dict(...)
import glob, importlib.util, os
from checks_common import *  # noqa: F401,F403

CHECKS = {}
for _p in sorted(glob.glob(os.path.join(os.path.dirname(os.path.abspath(__file__)), 'checks.d', 'C*.py'))):
    _spec = importlib.util.spec_from_file_location('chk_' + os.path.basename(_p)[:-3], _p)
    _m = importlib.util.module_from_spec(_spec)
    _spec.loader.exec_module(_m)
    CHECKS[os.path.basename(_p)[:-3]] = _m.CHECK
